#!/bin/sh
# TLC launcher used by every check: serial GC (the parallel collector spends minutes in
# page faults in this VM), bounded heap, temp files under /verif/work.
HERE=$(cd "$(dirname "$0")/.." && pwd)
mkdir -p "$HERE/work/tmp"
exec java -XX:+UseSerialGC -Xms${TLC_XMS:-512m} -Xmx${TLC_XMX:-4g} -Xss${TLC_XSS:-64m} \
  -Djava.io.tmpdir="$HERE/work/tmp" ${TLC_JAVA_OPTS:-} \
  -cp /opt/veriftools/tla/tla2tools.jar:/opt/veriftools/tla/CommunityModules-deps.jar tlc2.TLC "$@"
