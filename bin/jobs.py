"""Per-property job tables for bin/check.

Every value may be a (quick, thorough) tuple.  Job kinds:
  mc      TLC model-checks invariants/properties of a family specification
  replay  TLC generator specification -> behaviours -> `conform replay` on the real code
  trace   `conform record` on the real code -> trace -> TLC trace specification
  direct  `conform <cmd>` drivers whose oracle is the specification's definitions evaluated
          with exact integers (used beyond TLC's 32-bit range; cross-checked where both exist)
"""

ALLM = "Mean,Variance,Skewness,Kurtosis,Moments4,M4,M5,M6,M8,M10"
GENERIC = "Moments4,M4,M5,M6,M8,M10"
E05 = "E0,E1,E2,E3,E4,E5"
E09 = "E0,E1,E2,E3,E4,E5,E6,E7,E8,E9"

# thorough: OrderFree (which re-folds the sorted data in every state) is checked to length 5 by the
# quick configuration; at length 7 it is implied by AlgIsDef (the definitions are symmetric)
MC_SEQ = {"module": "MC_Moments", "cfg": "MC_Moments_seq.cfg", "timeout": 3600,
          "overrides": {"MaxLen": ("5", "7"),
                        "INVARIANTS": (None, "TypeOK LenExact AlgIsDef ChainIsPebay VarNonNeg MeanInRange ShortcutsSound SampleDefs Sentinels")}}
MC_MERGE = {"module": "MC_Moments", "cfg": "MC_Moments_merge.cfg", "overrides": {"MaxLen": ("3", "4")}, "timeout": 3600}
MC_P6 = {"module": "MC_Moments", "cfg": "MC_Moments_p6.cfg"}
MC_P8 = {"module": "MC_Moments", "cfg": "MC_Moments_p8.cfg"}
MC_P10 = {"module": "MC_Moments", "cfg": "MC_Moments_p10.cfg"}


def gen_seq(types, emb, maxlen=("5", "7"), alphabet=None):
    ov = {"MaxLen": maxlen}
    if alphabet:
        ov["Alphabet"] = alphabet
    return {"module": "Gen_Moments", "cfg": "Gen_Moments_seq.cfg", "overrides": ov,
            "family": "moments", "types": types, "embeddings": emb}


def gen_tree(types, emb, maxlen=("4", "5"), slots=("{1, 2, 3}", "{1, 2, 3}")):
    return {"module": "Gen_Moments", "cfg": "Gen_Moments_tree.cfg", "overrides": {"MaxLen": maxlen, "Slots": slots},
            "family": "moments", "types": types, "embeddings": emb}


def gen_hist(types, emb, depth=("4", "5"), slots=("{1, 2}", "{1, 2}")):
    return {"module": "Gen_Moments", "cfg": "Gen_Moments_hist.cfg", "overrides": {"MaxDepth": depth, "Slots": slots},
            "family": "moments", "types": types, "embeddings": emb}


def gen_p10(types, emb):
    return {"module": "Gen_Moments", "cfg": "Gen_Moments_p10.cfg", "family": "moments", "types": types, "embeddings": emb}


MC_W = {"module": "MC_Weighted", "cfg": "MC_Weighted.cfg", "overrides": {"MaxLen": ("2", "2")}}
MC_W1 = {"module": "MC_Weighted", "cfg": "MC_Weighted.cfg", "overrides": {"MaxLen": ("3", "4"), "Slots": "{1}"}}
MC_WW = {"module": "MC_Weighted", "cfg": "MC_Weighted.cfg", "overrides": {"MaxLen": ("2", "2"), "Weights": "MCWeightsWide"}}
MC_C = {"module": "MC_Covariance", "cfg": "MC_Covariance.cfg", "overrides": {"MaxLen": ("2", "2")}}
MC_C1 = {"module": "MC_Covariance", "cfg": "MC_Covariance.cfg", "overrides": {"MaxLen": ("3", "4"), "Slots": "{1}"}}
WE = "E0:W0,E1:W1,E2:W2,E3:W0,E4:W1,E5:W2"
CE = "E0:E0,E3:E5,E1:E2,E4:E0,E5:E3"


def gen_pair(fam, mode, emb, types=None, maxlen=None, depth=None, slots=None, wide=False):
    """fam: Weighted | Covariance; mode: seq | tree | hist; wide: weights {0, 1, 4096}"""
    ov = {}
    if mode == "tree" and not wide and slots is None:
        slots = ("{1, 2, 3}", "{1, 2}")      # thorough: longer sequences, two chunks
    if wide:
        ov["Values"] = "GenValuesNarrow"
        ov["Weights"] = "GenWeightsWide"
    if maxlen:
        ov["MaxLen"] = maxlen
    if depth:
        ov["MaxDepth"] = depth
    if slots:
        ov["Slots"] = slots
    j = {"module": "Gen_" + fam, "cfg": "Gen_%s_%s.cfg" % (fam, mode), "overrides": ov, "family": fam.lower(), "embeddings": emb}
    if types:
        j["types"] = types
    return j


MC_MM = {"module": "MC_MinMax", "cfg": "MC_MinMax.cfg", "overrides": {"MaxLen": ("3", "3")}}


def gen_mm(mode, maxlen=None, depth=None, slots=None):
    ov = {}
    if maxlen:
        ov["MaxLen"] = maxlen
    if depth:
        ov["MaxDepth"] = depth
    if slots:
        ov["Slots"] = slots
    return {"module": "Gen_MinMax", "cfg": "Gen_MinMax_%s.cfg" % mode, "overrides": ov, "family": "minmax", "embeddings": "1,1e-30,1e30,1.7976931348623157e308,1e-310"}


MC_Q = {"module": "MC_Quantile", "cfg": "MC_Quantile.cfg", "overrides": {"MaxLen": ("6", "8")}, "timeout": 7200}
MC_QS = {"module": "MC_Quantile", "cfg": "MC_Quantile_small.cfg"}
TR_Q = {"module": "Trace_Quantile", "cfg": "Trace_Quantile.cfg", "family": "quantile", "args": {"n": ("1000", "20000")}, "timeout": 3600}


def gen_q(which, emb, maxlen=None, alphabet=None, pset=None):
    ov = {}
    if maxlen:
        ov["MaxLen"] = maxlen
    if alphabet:
        ov["Alphabet"] = alphabet
    if pset:
        ov["PSet"] = pset
    # dbg: replayed a second time with debug assertions on (debug_assert!s of src/quantile.rs, easy-cast's checked conversions)
    return {"module": "Gen_Quantile", "cfg": "Gen_Quantile_%s.cfg" % which, "overrides": ov, "family": "quantile", "embeddings": emb, "timeout": 7200,
            "dbg": which == "small" or (maxlen is not None and alphabet is None)}


MC_HF = {"module": "MC_Histogram", "cfg": "MC_Histogram_find.cfg", "overrides": {"LEN": ("2", "3"), "BuildLen": ("4", "5")}, "timeout": 7200}
MC_HF1 = {"module": "MC_Histogram", "cfg": "MC_Histogram_find.cfg", "overrides": {"LEN": "1", "BuildLen": "3"}}
MC_HM = {"module": "MC_Histogram", "cfg": "MC_Histogram_merge.cfg", "overrides": {"MaxCount": ("3", "4")}, "timeout": 7200}


def gen_h(mode, length, depth="3", simulate=None, skip=None):
    j = {"module": "Gen_Histogram", "cfg": "Gen_Histogram_%s.cfg" % mode,
         "overrides": {"LEN": str(length), "BuildLen": str(length + 1), "MaxDepth": depth}, "family": "histogram", "timeout": 7200}
    if simulate:
        # one worker: the traces (and the number of lines: every successor of every visited state is
        # emitted, about 470 per trace of depth 12) are then a function of the seed alone
        j["simulate"] = simulate
        j["workers"] = 1
    if skip is not None:
        j["skip"] = skip
    return j


def tr_h(length, n=("2000", "20000")):
    return {"module": "Trace_Histogram", "cfg": "Trace_Histogram_%d.cfg" % length, "family": "histogram",
            "args": {"n": n, "len": str(length)}, "timeout": 3600}


H_HIST = [gen_h("hist", 1), gen_h("hist", 2, depth=("3", "4")), gen_h("hist", 3),
          gen_h("hist", 2, depth="12", simulate={"num": (150, 300), "depth": 12}),
          gen_h("hist", 4, depth="10", simulate={"num": 300, "depth": 10}, skip=(True, False))]

def long_job(types, emb, max_n=("10000", "1000000")):
    """long streams beyond TLC's integer range: oracle = the specification's definitions in i128"""
    return {"cmd": "direct", "family": "long", "args": {"types": types, "embeddings": emb, "max_n": max_n}}


TR_LEN = {"module": "Trace_Len", "cfg": "Trace_Len.cfg", "family": "len", "args": {"n": ("500", "5000")}, "timeout": 1800}

TR_MM = {"module": "Trace_MinMax", "cfg": "Trace_MinMax.cfg", "family": "minmax", "args": {"n": ("500", "5000")}, "timeout": 1800}

def tr_mom(n):
    """arbitrary-f64 histories of the real moment estimators, every value logged as an exact dyadic
    rational; TLC recomputes the exact statistics in unbounded arithmetic (Big / BigQ / BigStats) and
    decides the envelope as an exact rational inequality"""
    return {"module": "Trace_Moments", "cfg": "Trace_Moments.cfg", "family": "moments", "args": {"n": n}, "timeout": 3600}


def tr_pairs(n):
    """the same for Covariance / WeightedMeanWithError / WeightedMean: add, collect, extend, merge, clone,
    serde histories over arbitrary f64 pairs (Trace_Pairs.tla)"""
    return {"module": "Trace_Pairs", "cfg": "Trace_Pairs.cfg", "family": "pairs", "args": {"n": n}, "timeout": 3600}


# one P-square step at a time: the marker state of the real Quantile before / after every add of long streams,
# decided by TLC with Quantile.tla's Step over unbounded rationals (QuantileBig.tla, checked against Quantile.tla)
TR_QSTEP = {"module": "Trace_QStep", "cfg": "Trace_QStep.cfg", "family": "qstep", "args": {"n": ("150", "500")}, "timeout": 3600}
MC_QBIG = {"module": "MC_QuantileBig", "cfg": "MC_QuantileBig.cfg", "workers": 4, "timeout": 3600}


# soundness of the unbounded arithmetic: TLA+ definitions vs TLC integers, Java overrides vs TLA+
# definitions, power-sum statistics vs Exact.tla
MC_BIG = {"module": "MC_Big", "cfg": "MC_Big.cfg", "workers": 1}
MC_BIGSTATS = {"module": "MC_BigStats", "cfg": "MC_BigStats.cfg", "workers": 1, "overrides": {"MaxLen": ("4", "5")}}

HIST_BIG = {"cmd": "direct", "family": "histbig", "args": {"reps": ("200", "3000")}}

# Ingest.tla behaviours with chunks of 5..200 observations (the TLC generator stops at chunks of 2), built by the harness
INGEST_LONG = {"cmd": "direct", "family": "ingestlong", "args": {}}

GEN_INGEST = {"module": "Gen_Ingest", "cfg": "Gen_Ingest.cfg", "overrides": {"MaxLen": ("4", "4"), "MaxSteps": ("3", "4")}, "family": "ingest"}

PROPS = {
    "C01": {
        "level_text": "Moments.tla model-checked (TLC, exact rationals): Welford's update equals the textbook mean/variance for every sequence within bounds and is order-free; every TLC-generated sequence replayed on Mean/Variance under six exact embeddings, envelope comparison; long streams (<= 10^6) against the specification's definitions evaluated in i128; Apalache inductive invariant for the order-2 update over unbounded integers (thorough); histories of arbitrary full-mantissa f64 values recorded from the real estimators, every value logged as the exact dyadic rational it is, validated by TLC against Trace_Moments.tla: exact statistics from additive power sums in unbounded rational arithmetic (Big / BigQ / BigStats, checked against Exact.tla and TLC integers by MC_Big / MC_BigStats), envelope decided as an exact rational inequality",
        "technique": 'TLC model checking of Moments.tla + spec->impl replay of every generated sequence; exact-evaluator long runs; Apalache inductive invariant + TLC trace validation of recorded arbitrary-f64 histories in exact unbounded arithmetic (Trace_Moments.tla)',
        "title": "streaming mean/variance equal the exact statistics",
        "mc": [MC_BIG, MC_BIGSTATS, MC_SEQ],
        "replay": [gen_seq("Mean,Variance", E05)],
        "direct": [long_job("Mean,Variance", E05, max_n=("100000", "1000000"))],
        "apalache": [{"module": "Ind_Variance", "skip": (True, False)}],
        "trace": [tr_mom(("400", "2000"))],
        "rule": "every sequence over the lattice {-3,-1,0,2,3} up to the length bound, fed to Mean and Variance under six exact "
                "affine embeddings (magnitudes 1e-30..1e30, offsets up to 1e12 spreads); distinct = distinct histories; "
                "non-trivial = n >= 2 and non-constant data",
        "bounds": {"quick": "L <= 5 (3,906 sequences)", "thorough": "L <= 7 (97,656 sequences)"},
        "assumptions": ["TLC 32-bit exact rationals; envelope constants of DESIGN.md section 5",
                        "f64 accuracy is observed on lattice data under exact embeddings, not proved for all mantissas"],
    },
    "C02": {
        "level_text": 'Moments.tla with Merge: AlgIsDef holds in every state reachable by add/merge/clone (Chan/Terriberry/Pebay merges = definition on concatenated ghost data), MergeLaws action property; every chunking x merge tree x direction replayed on ten types; long random chunkings incl. two-block boundary merges; histories of arbitrary full-mantissa f64 values recorded from the real estimators, every value logged as the exact dyadic rational it is, validated by TLC against Trace_Moments.tla: exact statistics from additive power sums in unbounded rational arithmetic (Big / BigQ / BigStats, checked against Exact.tla and TLC integers by MC_Big / MC_BigStats), envelope decided as an exact rational inequality',
        "technique": 'TLC model checking of merge histories + replay of every generated merge tree on the real types + TLC trace validation of recorded arbitrary-f64 histories in exact unbounded arithmetic (Trace_Moments.tla)',
        "title": "merge is equivalent to having seen the concatenated data",
        "mc": [MC_BIG, MC_BIGSTATS, MC_MERGE],
        "replay": [gen_tree(ALLM, E05), gen_hist(ALLM, "E0,E3,E5")],
        "direct": [long_job(ALLM.replace(",M4", "").replace(",M5", "").replace(",M8", ""), "E0,E3,E5")],
        "apalache": [{"module": "Ind_Variance", "skip": (True, False)}],
        "trace": [tr_mom(("200", "800")), TR_LEN],
        "rule": "every sequence over {-1,0,2} up to the length bound, cut into every composition of up to K contiguous chunks "
                "(empty chunks included), merged in every order and direction of adjacent merges (all binary merge trees); "
                "plus arbitrary add/merge/clone/fresh histories; ten concrete types; six embeddings",
        "bounds": {"quick": "tree: L <= 4, K <= 3; hist: depth <= 4 over 2 slots", "thorough": "tree: L <= 5, K <= 3; hist: depth <= 5"},
        "assumptions": ["as C01"],
    },
    "C03": {
        "level_text": 'as C01 for the third and fourth central sums (chain transcription with the OLD lower sums) and the skewness/kurtosis accessors incl. their zero shortcuts; histories of arbitrary full-mantissa f64 values recorded from the real estimators, every value logged as the exact dyadic rational it is, validated by TLC against Trace_Moments.tla: exact statistics from additive power sums in unbounded rational arithmetic (Big / BigQ / BigStats, checked against Exact.tla and TLC integers by MC_Big / MC_BigStats), envelope decided as an exact rational inequality; every replay also with all accessors read after every step, and once more with debug assertions on',
        "technique": 'TLC model checking of Moments.tla (orders 3, 4) + replay on Skewness/Kurtosis + TLC trace validation of recorded arbitrary-f64 histories in exact unbounded arithmetic (Trace_Moments.tla)',
        "title": "skewness and kurtosis equal the exact standardized moments",
        "mc": [MC_BIG, MC_BIGSTATS, MC_SEQ],
        "replay": [{**gen_seq("Skewness,Kurtosis", "E0,E1,E2,E3,E5"), "dbg": True}],
        "direct": [long_job("Skewness,Kurtosis", "E0,E1,E2,E3,E5")],
        "trace": [tr_mom(("300", "1500"))],
        "rule": "as C01 for Skewness and Kurtosis; the asymmetric lattice yields both signs of skewness, two-point, "
                "single-outlier, bimodal and progression shapes",
        "bounds": {"quick": "L <= 5", "thorough": "L <= 7"},
        "assumptions": ["as C01"],
    },
    "C04": {
        "level_text": "Pebay transcription of define_moments! model-checked for P = 4, 6, 8, 10 (ChainIsPebay, AlgIsDef); replay on Moments4 and harness instantiations of orders 4, 5, 6, 8, 10; orders beyond the generator's P from the i128 evaluator, cross-checked against the specification; histories of arbitrary full-mantissa f64 values recorded from the real estimators, every value logged as the exact dyadic rational it is, validated by TLC against Trace_Moments.tla: exact statistics from additive power sums in unbounded rational arithmetic (Big / BigQ / BigStats, checked against Exact.tla and TLC integers by MC_Big / MC_BigStats), envelope decided as an exact rational inequality",
        "technique": 'TLC model checking of the Pebay recurrences + replay on define_moments! types of five orders + TLC trace validation of recorded arbitrary-f64 histories in exact unbounded arithmetic (Trace_Moments.tla)',
        "title": "define_moments! estimators of any order equal the exact central moments",
        "mc": [MC_BIG, MC_BIGSTATS, MC_SEQ, MC_P6, MC_P8, MC_P10],
        "replay": [gen_seq(GENERIC, E05), gen_p10(GENERIC, "E0,E1,E3,E5"), gen_seq(GENERIC, "E0,E1", maxlen=("7", "8"), alphabet="GenAlphabetZeroSkew")],
        "direct": [long_job("Moments4,M6,M10", "E0,E1,E3,E5")],
        "trace": [tr_mom(("160", "500"))],
        "rule": "as C01 for define_moments! types of order 4 (crate's Moments4 and a harness instantiation), 5, 6, 8, 10; "
                "orders above the specification run's P use the harness's exact i128 evaluation of the definition, "
                "cross-checked against the specification on every order both carry",
        "bounds": {"quick": "P=4: L <= 5 over 5 values; P=10: L <= 2 over {0,1,2} with merges", "thorough": "P=4: L <= 7"},
        "assumptions": ["as C01", "design-level (TLC) check of orders 6/8/10 limited to L <= 3/2/2 by 32-bit integers"],
    },
    "C10": {
        "level_text": 'SampleDefs invariant of Moments.tla (bias-corrected statistics against textbook definitions on the ghost data); replay of every sequence on every type exposing the statistic; histories of arbitrary full-mantissa f64 values recorded from the real estimators, every value logged as the exact dyadic rational it is, validated by TLC against Trace_Moments.tla: exact statistics from additive power sums in unbounded rational arithmetic (Big / BigQ / BigStats, checked against Exact.tla and TLC integers by MC_Big / MC_BigStats), envelope decided as an exact rational inequality',
        "technique": 'TLC model checking of SampleDefs + replay + TLC trace validation of recorded arbitrary-f64 histories in exact unbounded arithmetic (Trace_Moments.tla)',
        "title": "bias-corrected sample statistics follow their textbook definitions",
        "mc": [MC_BIG, MC_BIGSTATS, MC_SEQ],
        "replay": [gen_pair("Weighted", "seq", "E0:W0,E3:W1,E5:W2", types="WeightedMeanWithError", maxlen=("4", "5")), gen_seq("Variance,Skewness,Kurtosis," + GENERIC, "E0,E1,E2,E3,E5"), gen_tree("Variance,Kurtosis,Moments4,M6", "E0,E3")],
        "direct": [long_job("Variance,Kurtosis,Moments4,M6", "E0,E3")],
        "trace": [tr_mom(("200", "800"))],
        "rule": "as C01; sample_variance / variance_of_mean / error on every type that has them, sample_skewness and "
                "sample_excess_kurtosis on all define_moments! types, sentinel rows below the minimum sample size",
        "bounds": {"quick": "L <= 5", "thorough": "L <= 7"},
        "assumptions": ["as C01"],
    },
    "C11": {
        "level_text": 'MergeLaws action property in every family specification (empty source = identity, empty destination = copy, lengths add, source unchanged); at every merge of every generated history the real destination/source accessor vectors are compared bit for bit; two-valued full-mantissa samples of every length 2..40 merged with a fresh estimator both ways, bit for bit; lengths doubled beyond 2^53',
        "technique": 'TLC action properties + bitwise implementation-vs-implementation comparison at every generated merge',
        "title": "the empty estimator is an exact identity of merge; lengths add exactly",
        "mc": [MC_HM, MC_MM, MC_W, MC_C, MC_MERGE],
        "replay": [gen_pair("Covariance", "tree", "E10:E10,E5:E10,E0:E0", maxlen=("3", "4")), gen_pair("Weighted", "tree", "E10:W1,E0:W0", maxlen=("3", "4")), gen_h("hist", 2, depth=("3", "4")), gen_h("hist", 3), gen_mm("hist", depth=("3", "4")), gen_pair("Weighted", "hist", "E0:W0,E5:W2,E10:W1", depth=("3", "4")), gen_pair("Covariance", "hist", "E0:E0,E3:E5,E10:E10,E5:E10", depth=("3", "4")), gen_hist(ALLM, "E0,E3,E5,E10"), gen_tree(ALLM, "E0")],
        "trace": [tr_h(3, n=("5000", "20000")), TR_LEN],
        "direct": [long_job("Mean,Variance,Skewness,Kurtosis,Moments4,M6", "E0", max_n="1000")],
        "rule": "every add/merge/clone/fresh/checkpoint history to the depth bound over two slots; at every merge the "
                "destination's and source's full accessor vectors are compared bit for bit before/after",
        "bounds": {"quick": "depth <= 4", "thorough": "depth <= 5"},
        "assumptions": ["bitwise comparisons are implementation against implementation"],
    },
    "C16": {
        "level_text": 'Sentinels invariant in every family specification; accessor tables at n = 0..4 and constant streams (up to 10^4, full-mantissa embedding) compared exactly; histories of arbitrary full-mantissa f64 values recorded from the real estimators, every value logged as the exact dyadic rational it is, validated by TLC against Trace_Moments.tla: exact statistics from additive power sums in unbounded rational arithmetic (Big / BigQ / BigStats, checked against Exact.tla and TLC integers by MC_Big / MC_BigStats), envelope decided as an exact rational inequality',
        "technique": 'TLC Sentinels invariants + exact replay + TLC trace validation of recorded arbitrary-f64 histories in exact unbounded arithmetic (Trace_Moments.tla)',
        "title": "empty, one-observation and constant samples follow the documented contract",
        "mc": [MC_BIG, MC_BIGSTATS, MC_W1, MC_C1, MC_SEQ, MC_MERGE],
        "replay": [GEN_INGEST, gen_q("small", "E0"), gen_mm("hist", depth=("3", "3")), gen_pair("Weighted", "seq", "E0:W0,E5:W2,E10:W0,E10:W1,E0:W3", maxlen=("4", "5")), gen_pair("Covariance", "seq", "E0:E0,E3:E5,E10:E10", maxlen=("4", "5")), gen_seq(ALLM, E05 + ",E10"), gen_hist(ALLM, "E0")],
        "direct": [{"cmd": "direct", "family": "rayontiny", "args": {}}, long_job("Mean,Variance,Skewness,Kurtosis,Moments4,M6,M10", E05 + ",E10", max_n="10000")],
        "trace": [tr_pairs(("150", "600")), tr_mom(("200", "600"))],
        "rule": "every accessor of every type at n = 0..4 and on every constant sequence in the enumerated set, sentinel class "
                "or exact value required",
        "bounds": {"quick": "L <= 5", "thorough": "L <= 7"},
        "assumptions": [],
    },
    "C17": {
        "level_text": 'VarNonNeg, MeanInRange, EffectiveLenRange, VarianceRange, CauchySchwarz invariants (exact arithmetic cannot go negative); every behaviour replayed under embeddings without conditioning bound (one-ulp spreads, denormals, 1e149) asserting sign/range on every observation; two-block boundary merges; histories of arbitrary full-mantissa f64 values recorded from the real estimators, every value logged as the exact dyadic rational it is, validated by TLC against Trace_Moments.tla: exact statistics from additive power sums in unbounded rational arithmetic (Big / BigQ / BigStats, checked against Exact.tla and TLC integers by MC_Big / MC_BigStats), envelope decided as an exact rational inequality',
        "technique": 'TLC range invariants + replay under extreme exact embeddings + ingestion / large-count direct jobs; Apalache inductive invariants (variance identity, effective_len <= len; thorough) + TLC trace validation of recorded arbitrary-f64 histories in exact unbounded arithmetic (Trace_Moments.tla)',
        "title": "variances are never negative and means stay within the data range",
        "mc": [MC_BIG, MC_BIGSTATS, MC_HM, MC_W, MC_C, MC_SEQ, MC_MERGE],
        "replay": [GEN_INGEST, gen_h("hist", 2, depth=("3", "4")), gen_h("hist", 3), gen_pair("Weighted", "tree", "E0:W0,E6:W1,E7:W2,E8:W0,E9:W1,EM1:W0,E14:W1,E7:W1,E14:W0", maxlen=("3", "4")), gen_pair("Weighted", "seq", "EM1:W0,EM1:W2", maxlen=("4", "5")), gen_pair("Covariance", "tree", "E6:E7,E8:E9,E9:E6,EM1:EM1,E14:E14", maxlen=("3", "4")), gen_seq(ALLM, E09 + ",EM1"), gen_tree(ALLM, "E0,E4,E6,E7,E8,E9,EM1,E14"), gen_hist(ALLM, "E6,E7,E8,E9,EM1")],
        "direct": [INGEST_LONG, long_job("Mean,Variance,Skewness,Kurtosis,Moments4,M6,M10", "E0,E4,E6,E7,E8,E9,E10"), HIST_BIG],
        "apalache": [{"module": "Ind_Variance", "skip": (True, False)}, {"module": "Ind_EffLen", "skip": (True, False)}],
        "trace": [tr_pairs(("200", "1000")), tr_mom(("250", "1000")), tr_h(3, n=("5000", "20000"))],
        "rule": "all behaviours of C01/C02 replayed under embeddings without any conditioning bound (one-ulp spreads at 2^52, "
                "denormals, 1e149, offsets 1e15 spreads); sign and range conditions on every observation",
        "bounds": {"quick": "L <= 5; tree L <= 4", "thorough": "L <= 7; tree L <= 5"},
        "assumptions": [],
    },
    "C18": {
        "level_text": 'Checkpoint is a stuttering action of every family specification; histories with checkpoints at every position replayed twice (with / without the JSON round trip) and compared bit for bit; a serde twin restored before every observation runs alongside long quantile streams and TLC requires it to stay identical; every round trip both through JSON and through a positional (not self-describing) serde format',
        "technique": 'stuttering Checkpoint action + two-run bitwise replay + serde twin in validated traces',
        "title": "a serde round trip at any point is invisible",
        "mc": [MC_MERGE],
        "replay": [gen_h("hist", 2, depth=("3", "4")), gen_h("hist", 1), H_HIST[3], gen_q("big", "E0,E5,E16", maxlen=("7", "8")), gen_q("small", "E0,E16"), gen_mm("hist", depth=("3", "4")), gen_pair("Weighted", "hist", "E0:W0,E5:W2,E16:W4", depth=("4", "4")), gen_pair("Covariance", "hist", "E0:E0,E3:E5,E16:E16", depth=("3", "4")), gen_hist(ALLM, "E0,E3,E5,E16", depth=("5", "6"), slots=("{1}", "{1}")), gen_hist(ALLM, "E0,E5,E16")],
        "trace": [TR_Q, TR_MM],
        "direct": [{"cmd": "direct", "family": "histserde", "args": {"reps": ("20", "200")}}, {"cmd": "direct", "family": "serdelong", "args": {"n": ("300", "3000")}}],
        "rule": "every history with checkpoints at every position; two real executions (with / without the JSON round trip) "
                "compared bit for bit on every accessor",
        "bounds": {"quick": "depth <= 5 one slot, depth <= 4 two slots", "thorough": "depth <= 6 one slot, depth <= 5 two slots"},
        "assumptions": ["serde_json with float_roundtrip is lossless for finite f64"],
    },
    "C08": {
        "level_text": 'Weighted.tla (West update, weighted merge, embedded variance): WeightedIsDef, ErrorIsDef, ZeroWeightInvisible, EffectiveLenRange model-checked; every (value, weight) sequence / chunking / merge tree replayed on both weighted types incl. very unequal weights (1 : 4096 uniformly scaled, and 2^-19 : 2^19 inside one stream under the weight map WX, whose expected values come from the harness evaluation of the specification definitions, cross-checked against the specification on every generated line); add / collect / extend / merge / clone / serde histories over arbitrary full-mantissa f64 pairs recorded from the real estimators, every number logged as the exact dyadic rational it is, validated by TLC against Trace_Pairs.tla (exact sums in unbounded rational arithmetic, envelope decided as an exact rational inequality)',
        "technique": 'TLC model checking of Weighted.tla + replay of every generated history; Apalache inductive invariant for West\'s update and the weighted merge (thorough) + TLC trace validation of recorded arbitrary-f64 histories in exact unbounded arithmetic (Trace_Pairs.tla)',
        "title": "weighted mean and its error equal the exact weighted statistics",
        "mc": [MC_BIG, MC_BIGSTATS, MC_W, MC_W1, MC_WW],
        "apalache": [{"module": "Ind_Weighted", "skip": (True, False)}],
        "replay": [GEN_INGEST, gen_pair("Weighted", "seq", WE + ",E0:WX,E5:WX", maxlen=("4", "5")),
                   gen_pair("Weighted", "tree", "E0:W0,E3:W1,E5:W2,E0:WX", maxlen=("3", "4")),
                   gen_pair("Weighted", "hist", "E0:W0,E5:W2,E0:WX", depth=("3", "4")),
                   gen_pair("Weighted", "seq", "E0:W0,E3:W1,E0:WX", maxlen=("5", "6"), wide=True),
                   gen_pair("Weighted", "tree", "E0:W0,E5:W2", maxlen=("4", "5"), wide=True),
                   gen_pair("Weighted", "hist", "E0:W0,E0:WX", maxlen="3", depth=("4", "5"), wide=True)],
        "trace": [tr_pairs(("250", "1000"))],
        "direct": [INGEST_LONG],
        "rule": "every sequence of (value, weight) pairs over {-1,0,2} x {0,1,3} up to the length bound (zero weights at every "
                "position, first included), every chunking into <= 3 chunks and merge tree, arbitrary histories; "
                "WeightedMean and WeightedMeanWithError; value embeddings x weight scales 2^-19, 1, 2^18; the same again over "
                "{-1,2} x {0,1,4096} (chunks whose total weights differ by more than three orders of magnitude)",
        "bounds": {"quick": "seq L <= 4; tree L <= 3, K <= 3; hist depth <= 3", "thorough": "seq L <= 5; tree L <= 4; hist depth <= 4"},
        "assumptions": ["as C01"],
    },
    "C09": {
        "level_text": 'Covariance.tla with a swapped twin: CovIsDef, CauchySchwarz, SwapSymmetric model-checked; every pair sequence / merge tree replayed incl. a real twin object fed swapped pairs; Apalache inductive invariant for the co-moment (thorough); add / collect / extend / merge / clone / serde histories over arbitrary full-mantissa f64 pairs recorded from the real estimators, every number logged as the exact dyadic rational it is, validated by TLC against Trace_Pairs.tla (exact sums in unbounded rational arithmetic, envelope decided as an exact rational inequality)',
        "technique": 'TLC model checking of Covariance.tla + replay incl. swapped twin; Apalache inductive invariant + TLC trace validation of recorded arbitrary-f64 histories in exact unbounded arithmetic (Trace_Pairs.tla)',
        "title": "covariance reports exact means, variances, covariance and Pearson correlation",
        "mc": [MC_BIG, MC_BIGSTATS, MC_C, MC_C1],
        "replay": [GEN_INGEST, gen_pair("Covariance", "seq", CE, maxlen=("4", "5")),
                   gen_pair("Covariance", "tree", "E0:E0,E3:E5,E5:E3", maxlen=("3", "4")),
                   gen_pair("Covariance", "hist", "E0:E0,E3:E5", depth=("4", "4"))],
        "apalache": [{"module": "Ind_Covariance", "skip": (True, False)}],
        "trace": [tr_pairs(("250", "1000"))],
        "direct": [INGEST_LONG],
        "rule": "every sequence of pairs over {-1,0,2}^2 up to the length bound (collinear, anti-collinear, partially correlated), "
                "every chunking and merge tree, arbitrary histories; independent embeddings of x and y; a twin object fed the "
                "swapped pairs is checked against the swapped specification values",
        "bounds": {"quick": "seq L <= 4; tree L <= 3, K <= 3; hist depth <= 3", "thorough": "seq L <= 5; tree L <= 4; hist depth <= 4"},
        "assumptions": ["as C01"],
    },
    "C14": {
        "level_text": 'MinMax.tla over tokens incl. +-inf, +-0, NaN: ExtremeIsDef (function of the non-NaN multiset), FromValueIsAdd; every sequence/chunking/merge tree/history replayed, all ingestion paths; long random histories (integers to 10^6, +-inf, -0.0, NaN; add/from_value/collect/extend/merge/clone and the stuttering checkpoint (JSON round trip) over six objects) recorded from the real code and validated by TLC against Trace_MinMax.tla, which asserts the definition after every event; batches of the trace also come from parallel iterators, from lazily sized iterators and with up to 39 values; Min / Max under the long-chunk ingestion behaviours',
        "technique": 'TLC model checking of MinMax.tla + exhaustive replay + TLC trace validation (Trace_MinMax.tla)',
        "title": "Min and Max return the exact extreme of everything seen, in any order",
        "mc": [MC_MM],
        "replay": [gen_mm("seq", maxlen=("5", "6")), gen_mm("tree", maxlen=("3", "4")), gen_mm("hist", depth=("3", "4"))],
        "trace": [TR_MM],
        "direct": [INGEST_LONG],
        "rule": "every sequence over the seven tokens {-inf,-1,-0.0,0.0,1,+inf,NaN} up to the length bound (all permutations are "
                "among them), every chunking into <= 3 chunks and merge order/direction, arbitrary histories with from_value; "
                "collect/extend ingestion on every add-only slot; finite tokens at scales 1, 1e-30, 1e30",
        "bounds": {"quick": "seq L <= 5; tree L <= 3; hist depth <= 3", "thorough": "seq L <= 6; tree L <= 4; hist depth <= 4"},
        "assumptions": ["-0.0 and 0.0 are the same number (the property says 'as numbers')"],
    },
    "C05": {
        "level_text": 'Quantile.tla (exact-rational P-square, one action per observation, boxes B1-B3 as operators) model-checked for the marker invariants; every stream of the bounded alphabet replayed step by step with positions/desired positions exact and heights within rounding (tie rule); long streams validated by TLC against the position skeleton (PosStep, proved equal to the full step by SkeletonIsStep); the specification Step in f64 (qref), cross-checked against the exact specification on every generated step, run side by side with the real estimator on continuous streams of 5,000 (thorough 100,000) observations: positions, desired positions, heights; one-step conformance on long recorded streams: TLC applies the Step of Quantile.tla over unbounded rationals (QuantileBig.tla, model-checked equal to it) to the real marker state before every add and requires the real state after it (positions exactly, heights within 32 ulp, either branch of the parabolic acceptance test only within rounding of a tie)',
        "technique": 'TLC model checking of Quantile.tla + step-wise replay + TLC trace validation of recorded long runs + long-stream comparison with the specification Step in f64 (qref, cross-checked per generated step) + TLC one-step trace validation in exact arithmetic (Trace_QStep.tla)',
        "title": "Quantile follows the P-square algorithm exactly once five observations are in",
        "mc": [MC_BIG, MC_QBIG, MC_Q],
        "replay": [gen_q("big", "E0,E3,E5,E12,E13", maxlen=("7", "8")),
                   gen_q("big", "E0,E5", maxlen=("12", "13"), alphabet="GenAlphabet01"),
                   {**gen_q("big", "E0", maxlen="9", alphabet="GenAlphabet012"), "skip": (True, False)},
                   {**gen_q("big", "E0", maxlen=("6", "7"), alphabet="GenAlphabetB", pset="GenPSetMore"), "skip": (True, False)},
                   {**gen_q("big", "E0", maxlen=("6", "7"), alphabet="GenAlphabetC"), "skip": (True, False)}],
        "trace": [TR_QSTEP, TR_Q],
        "direct": [{"cmd": "direct", "family": "qlong", "args": {"max_n": ("5000", "100000")}}],
        "rule": "every stream over {0,1,2,3} (ties everywhere) of length 5..L for p in {0,1/4,1/2,3/4,1}: positions and desired "
                "positions exactly, heights and quantile() within 64*n*2^-53*max|x| of the exact-rational P-square run, tie rule of "
                "DESIGN.md 4.2; plus long sorted/reverse/zig-zag/trending/duplicate/random streams whose recorded marker positions "
                "are validated by TLC against the position skeleton of the specification",
        "bounds": {"quick": "L <= 7 over {0,1,2,3}, L <= 12 over {0,1}; traces of 1,000 observations x 17 shapes", "thorough": "L <= 8; alphabets {0,1,2,5} {0,3,4,9} to L <= 7, p also 1/8 7/8; traces of 20,000"},
        "assumptions": ["exact P-square heights overflow TLC's 32-bit integers beyond about 9 observations: long streams are validated on the integer skeleton and the C15 invariants only",
                        "marker state is read from the public serde form (fields q, n, m)"],
    },
    "C07": {
        "level_text": 'Quantile.tla small-sample path: code-shaped index formula equals the definitional sample quantile for every multiset and p of the grid (SmallPathDefs); all permutations x 31 p values (+ one ulp either side of boundaries) replayed; also under the denormal embedding (exactness-aware tolerance) and with debug assertions on',
        "technique": 'TLC model checking of the small-sample definitions + exhaustive replay of all 340 sequences x p grid',
        "title": "with fewer than five observations Quantile returns the exact sample quantile",
        "mc": [MC_QS],
        "replay": [gen_q("small", "E0,E3,E5,E11,E7")],
        "rule": "all 340 sequences of length 1..4 over {0,1,2,3} (every permutation of every multiset) x 31 values of p (sixteenths, "
                "thirds, every k/n boundary +- 2^-20) and, in the harness, one ulp either side of every boundary; at boundaries that "
                "are within rounding either adjacent convention is accepted",
        "bounds": {"quick": "exhaustive", "thorough": "exhaustive"},
        "assumptions": [],
    },
    "C15": {
        "level_text": 'MarkersWellFormed / InRange / OneStepMoves of Quantile.tla; every enumerated stream checked after every observation; C15 flags logged at every step of long runs and required by Trace_Quantile; invalid p must panic',
        "technique": 'TLC invariants of Quantile.tla + replay + TLC trace validation',
        "title": "quantile estimates stay inside the data range and bookkeeping is exact",
        "mc": [MC_BIG, MC_QBIG, MC_Q, MC_QS],
        "replay": [gen_q("big", "E0,E3,E15", maxlen=("7", "8")), gen_q("big", "E0", maxlen=("12", "13"), alphabet="GenAlphabet01"), gen_q("small", "E0,E11,E15,E7")],
        "trace": [TR_QSTEP, TR_Q],
        "rule": "len/is_empty/p()/NaN-only-when-empty/range/marker order after every observation of every enumerated stream and of "
                "long recorded streams (validated by TLC as trace invariants); Quantile::new must panic for seven invalid p",
        "bounds": {"quick": "L <= 7; traces of 1,000", "thorough": "L <= 8; traces of 20,000"},
        "assumptions": ["marker state is read from the public serde form"],
    },
    "C06": {
        "level_text": 'Histogram.tla: the transcribed library binary search equals the half-open-bin definition for every valid edge vector and every lattice sample (FindIsDef), bins are counts of accepted samples; find/add tables and add histories replayed on define_histogram! (LEN 1-4) and histogram_const (nightly); random LEN 10/100 histories validated by TLC as traces; histogram_const histories (LEN 10, 100) validated by TLC as traces as well',
        "technique": 'TLC model checking of Histogram.tla + replay of find tables/histories + TLC trace validation (LEN 10, 100)',
        "title": "a histogram counts each sample in the unique half-open bin that contains it",
        "mc": [MC_HF1, MC_HF],
        "replay": [gen_h("find", 1), gen_h("find", 2), gen_h("find", 3), gen_h("find", 4, skip=(True, False)),
                   gen_h("cw", 3), gen_h("cw", 10), gen_h("cw", 100)] + H_HIST,
        "trace": [tr_h(10), tr_h(100, n=("1500", "10000"))],
        "rule": "every valid edge vector over {-inf,-1,-0.0,0,0.5,1,2,+inf} for LEN 1..3 (4 in the thorough tier), every sample of "
                "the refined lattice (every edge value, its floating-point neighbours, midpoints, +-inf, +-f64::MAX, NaN, -0.0): "
                "find and add against the definition; add histories; long random traces on LEN 10 and 100 validated by TLC",
        "bounds": {"quick": "LEN 1..3 exhaustive; histories depth 3; traces 2,000 / 1,500 events", "thorough": "LEN 1..4; histories depth 4 + random walks; traces 20,000 / 10,000"},
        "assumptions": ["the binary search of the installed standard library is transcribed in the specification (BinarySearch); a library "
                        "that returns a different one of several equal elements is caught by the replay, not by the model"],
    },
    "C12": {
        "level_text": 'FromRanges (first-offence semantics) equals the validity definition for every list offered (TLC ASSUME over all lists); ConstWidthOK; every list incl. surplus tails replayed; with_const_width across 16 scales and LEN up to 100; a scan with exactly one offence at every position (descent, NaN, both, truncation, surplus) for LEN 1, 4, 10, 100; histogram_const histories validated by TLC as traces as well',
        "technique": 'TLC evaluation of FromRangesIsDef over all lists + replay of every list',
        "title": "histogram construction accepts exactly the valid edge lists",
        "mc": [MC_HF1, MC_HF],
        "replay": [gen_h("build", 1), gen_h("build", 2), gen_h("build", 3), gen_h("build", 4, skip=(True, False)),
                   gen_h("cw", 1), gen_h("cw", 2), gen_h("cw", 3), gen_h("cw", 4), gen_h("cw", 10), gen_h("cw", 100)] + H_HIST[:3],
        "trace": [tr_h(10), tr_h(100, n=("1500", "10000"))],
        "direct": [{"cmd": "direct", "family": "buildscan", "args": {}}],
        "rule": "every list of length 0..LEN+1 over the nine tokens (NaN included) plus six kinds of surplus tail on every full-length "
                "list, LEN 1..3 (4 thorough): result kind, first-offence error, edges handed back bit for bit; with_const_width on "
                "21 integer pairs x 16 power-of-two scales (2^-100..2^100) for LEN 1,2,3,4,10,100; random lists for LEN 10/100 via traces",
        "bounds": {"quick": "LEN 1..3", "thorough": "LEN 1..4"},
        "assumptions": [],
    },
    "C13": {
        "level_text": 'Histogram.tla actions Merge/AddAssign/MulAssign/Reset/Clone with CombineLaws, PanicChangesNothing; BinsAreCounts; views as exact rationals / float classes; every history replayed (panic flags, operands unchanged, merge == += == reversed), traces validated by TLC; counts up to 2^62 against the u128 bin semantics and the cross-checked variance definition; the same recorder runs on histogram_const in the nightly harness and TLC validates its histories too',
        "technique": 'TLC model checking of Histogram.tla + history replay + TLC trace validation',
        "title": "histogram merge, +=, *=, reset and views are exact bin-wise operations",
        "mc": [MC_HM],
        "replay": H_HIST,
        "trace": [tr_h(2), tr_h(3, n=("5000", "20000")), tr_h(10)],
        "direct": [HIST_BIG],
        "rule": "every history of build/add/merge/+=/*=/reset/clone/checkpoint over two slots and 4-6 edge vectors (equal, numerically "
                "equal with different zero signs, different, infinite, with empty bins) to the depth bound: counts exact, panics "
                "exactly on different edges without mutation, merge == += == reversed merge, iteration order, all views against "
                "exact rationals / float classes (NaN checked explicitly)",
        "bounds": {"quick": "LEN 1..3, depth 3", "thorough": "LEN 2 depth 4; random walks depth 12 (LEN 2) and 10 (LEN 4)"},
        "assumptions": [],
    },
    "C20": {
        "level_text": 'Ingest.tla: the meaning of any mix of collect/extend/add is the add loop over the concatenation, concatenate! fields see everything once in order; every behaviour executed through the real impls of 12 types + 4 concatenate! structs (Probe) and compared bit for bit with the add loop; iterators that are not ExactSize and iterators that are not fused; short- and long-syntax concatenate! structs; the same replay on behaviours with chunks of 5..200 observations (increasing, decreasing, random; blocked and unrolled loops have their edge cases there)',
        "technique": 'TLC-generated ingestion behaviours + bitwise replay against the add loop',
        "title": "every ingestion path builds the same estimator; concatenate! adds nothing",
        "mc": [],
        "replay": [GEN_INGEST,
                   gen_q("small", "E0"), gen_mm("seq", maxlen=("4", "5"))],
        "direct": [INGEST_LONG],
        "rule": "every behaviour of Ingest.tla: start by new / default / collect (value, reference), then any mix of extend (value, "
                "reference, empty chunks included) and add, over every sequence up to the length bound; executed through the real "
                "FromIterator / Extend impls of 7 moment types, Min, Max, WeightedMean, WeightedMeanWithError, Covariance and four "
                "concatenate! structs (short and long syntax, 2-4 fields, a Probe estimator logging every forwarded add); all "
                "accessors compared bit for bit with the plain add loop; estimate() against the headline accessor",
        "bounds": {"quick": "sequences <= 4, <= 3 steps, chunks <= 2, three iterator shapes per chunk (50,301 behaviours)", "thorough": "sequences <= 4, <= 4 steps (888,253 behaviours)"},
        "assumptions": ["Max has no Extend impl in this tree: extend steps fall back to add for Max",
                        "concatenate! structs have no Extend: behaviours containing extend are skipped for them (counted)"],
    },
    "C19": {
        "level_text": "Rayon.tla (split/leaf/join over ghost index ranges) model-checked incl. liveness; the crate's exported impl_from_par_iterator! instantiated on a logging Probe and run on real pools: every recorded schedule validated by TLC against RayonObj; fold/reduce-shaped histories replayed on ten types; direct collects against exact statistics; arbitrary full-mantissa f64 vectors collected sequentially and from parallel iterators (by value, by reference, max_len 1 / 3, filter adaptor) under pools of 1, 2, 5, 16 threads: every result validated by TLC against Trace_Moments.tla (exact statistics in unbounded arithmetic, envelope as an exact rational inequality)",
        "technique": 'TLC model checking of Rayon.tla + TLC trace validation of recorded rayon schedules + replay; collections through filter / chain adaptors (item-less leaves) + TLC validation of parallel collections of arbitrary f64 data in exact arithmetic (Trace_Moments.tla)',
        "title": "parallel collection gives the sequential answer under every schedule",
        "mc": [MC_BIG, MC_BIGSTATS, {"module": "MC_Rayon", "cfg": "MC_Rayon.cfg", "overrides": {"N": ("4", "5"), "Ids": ("{1, 2, 3, 4, 5, 6, 7, 8}", "{1, 2, 3, 4, 5, 6, 7, 8, 9, 10}")}, "timeout": 7200},
               MC_MERGE],
        "replay": [{"module": "Gen_Moments", "cfg": "Gen_Moments_rayon.cfg",
                    "overrides": {"MaxLen": ("4", "5"), "Slots": ("{1, 2, 3, 4, 5, 6}", "{1, 2, 3, 4, 5, 6, 7, 8}")},
                    "family": "moments", "types": ALLM, "embeddings": "E0,E3,E5,E10"}],
        "trace": [tr_mom(("150", "400")), {"module": "Trace_Rayon", "cfg": "Trace_Rayon.cfg", "family": "rayon", "args": {"reps": ("2", "8")}, "timeout": 3600}],
        "direct": [{"cmd": "direct", "family": "rayon", "args": {"max_n": ("10000", "1000000"), "reps": ("2", "4")}},
                   long_job("Variance,Skewness,Kurtosis,Moments4", "E0,E3", max_n="1000")],
        "rule": "(a) Rayon.tla model-checked: every split tree and join order of N items returns an object holding 0..N-1 in order; "
                "(b) every fold/reduce-shaped history (every partition into <= 3-4 leaves, each merging its accumulator into an empty "
                "identity, joins in any order) replayed on ten real types; (c) the repository's impl_from_par_iterator! macro "
                "instantiated on a logging Probe and run on real pools (1..16 threads x 12 lengths x 5 splitting limits x repetitions): "
                "every recorded schedule validated by TLC against Rayon.tla; (d) collect::<T>() on the real types under 5 pool sizes, "
                "by value and by reference, against exact statistics",
        "bounds": {"quick": "N <= 4 model-checked; 720 recorded schedules; direct n <= 10^4", "thorough": "N <= 5; 2,880 recorded schedules; direct n <= 10^6"},
        "assumptions": ["rayon's scheduler is not modelled below fold/reduce: the schedule model is validated against observed schedules",
                        "a Probe object is owned by one thread at a time, so logging under one mutex inside each call gives a total order "
                        "consistent with every object's history"],
    },
}
