//! `conform-nightly`: replays the Gen_Histogram behaviours on `average::histogram_const::
//! Histogram<LEN>` (the const-generic twin of define_histogram!, nightly only).  The comparison
//! logic is the stable harness's hist.rs, included verbatim.
#![feature(generic_const_exprs)]
#![allow(incomplete_features, dead_code)]

#[path = "../../harness/src/exact.rs"]
mod exact;
#[path = "../../harness/src/hist.rs"]
mod hist;
#[path = "../../harness/src/rechist.rs"]
mod rechist;
#[path = "../../harness/src/report.rs"]
mod report;

use average::histogram_const::{Histogram, InvalidRangeError};
use average::Merge;
use hist::*;
use rayon::prelude::*;
use report::Report;
use serde_json::Value;
use std::io::{BufRead, BufReader};

fn ename(e: InvalidRangeError) -> &'static str {
    match e {
        InvalidRangeError::NaN => "NaN",
        InvalidRangeError::NotSorted => "NotSorted",
        InvalidRangeError::NotEnoughRanges => "NotEnoughRanges",
    }
}

macro_rules! const_hist_impl {
    ($len:expr, $name:expr) => {
        impl HistT for Histogram<$len> {
            const LEN: usize = $len;
            const NAME: &'static str = $name;
            fn from_ranges(v: Vec<f64>) -> Result<Self, &'static str> {
                Histogram::<$len>::from_ranges(v).map_err(ename)
            }
            fn from_ranges_lazy(v: Vec<f64>) -> Result<Self, &'static str> {
                Histogram::<$len>::from_ranges(v.into_iter().filter(|x| !x.is_nan() || x.is_nan())).map_err(ename)
            }
            fn with_const_width(a: f64, b: f64) -> Self {
                Histogram::<$len>::with_const_width(a, b)
            }
            fn find(&self, x: f64) -> Result<usize, ()> {
                Histogram::<$len>::find(self, x).map_err(|_| ())
            }
            fn add(&mut self, x: f64) -> Result<(), ()> {
                Histogram::<$len>::add(self, x).map_err(|_| ())
            }
            fn bins(&self) -> Vec<u64> {
                Histogram::<$len>::bins(self).to_vec()
            }
            fn ranges(&self) -> Vec<f64> {
                Histogram::<$len>::ranges(self).to_vec()
            }
            fn range_min(&self) -> f64 {
                Histogram::<$len>::range_min(self)
            }
            fn range_max(&self) -> f64 {
                Histogram::<$len>::range_max(self)
            }
            fn merge(&mut self, o: &Self) {
                Merge::merge(self, o)
            }
            fn add_assign(&mut self, o: &Self) {
                *self += o;
            }
            fn mul_assign(&mut self, k: u64) {
                *self *= k;
            }
            fn reset(&mut self) {
                Histogram::<$len>::reset(self)
            }
            fn items(&self) -> Vec<((f64, f64), u64)> {
                self.into_iter().collect()
            }
            fn iter_items(&self) -> Vec<((f64, f64), u64)> {
                self.iter().collect()
            }
            fn iter_protocol(&self, k: usize) -> (Vec<((f64, f64), u64)>, Vec<((f64, f64), u64)>, Vec<((f64, f64), u64)>, bool) {
                let mut it = self.iter();
                let mut first = Vec::new();
                for _ in 0..k {
                    if let Some(x) = it.next() {
                        first.push(x);
                    }
                }
                let mut cl = it.clone();
                let rest: Vec<_> = it.by_ref().collect();
                let rest_clone: Vec<_> = cl.by_ref().collect();
                let none_twice = it.next().is_none() && it.next().is_none() && cl.next().is_none();
                (first, rest, rest_clone, none_twice)
            }
            fn widths(&self) -> Vec<f64> {
                Histogram::<$len>::widths(self).collect()
            }
            fn centers(&self) -> Vec<f64> {
                Histogram::<$len>::centers(self).collect()
            }
            fn normalized(&self) -> Vec<f64> {
                Histogram::<$len>::normalized_bins(self).collect()
            }
            fn variances(&self) -> Vec<f64> {
                Histogram::<$len>::variances(self).collect()
            }
            fn variance(&self, i: usize) -> f64 {
                Histogram::<$len>::variance(self, i)
            }
            fn to_json(&self) -> Option<String> {
                None // histogram_const has no serde support
            }
            fn from_json(_: &str) -> Self {
                unreachable!()
            }
            fn debug(&self) -> String {
                format!("{:?}", self)
            }
        }
    };
}

const_hist_impl!(1, "const<1>");
const_hist_impl!(2, "const<2>");
const_hist_impl!(3, "const<3>");
const_hist_impl!(4, "const<4>");
const_hist_impl!(10, "const<10>");
const_hist_impl!(100, "const<100>");

fn process_line(v: &Value, want: &HWant, rep: &mut Report) {
    let kept_before = rep.violations.len();
    if !line_prologue(v, rep) {
        return;
    }
    match v["len"].as_u64().unwrap() {
        1 => dispatch::<Histogram<1>>(v, want, rep),
        2 => dispatch::<Histogram<2>>(v, want, rep),
        3 => dispatch::<Histogram<3>>(v, want, rep),
        4 => dispatch::<Histogram<4>>(v, want, rep),
        10 => dispatch::<Histogram<10>>(v, want, rep),
        100 => dispatch::<Histogram<100>>(v, want, rep),
        n => panic!("no const histogram with LEN {n}"),
    }
    for x in rep.violations.iter_mut().skip(kept_before) {
        x["line"] = v.clone();
    }
}

fn main() {
    std::panic::set_hook(Box::new(|_| {}));
    let args: Vec<String> = std::env::args().collect();
    let get = |k: &str| args.iter().position(|a| a == k).map(|i| args[i + 1].clone());
    let out = get("--out");
    let t0 = std::time::Instant::now();
    if let Some(trace) = get("--record") {
        // implementation -> specification: the histogram trace recorder of the stable harness on
        // histogram_const::Histogram<LEN>; Trace_Histogram.tla validates the result
        use rand::SeedableRng;
        let len: usize = get("--len").and_then(|s| s.parse().ok()).unwrap_or(10);
        let n: usize = get("--n").and_then(|s| s.parse().ok()).unwrap_or(1000);
        let seed: u64 = get("--seed").and_then(|s| s.parse().ok()).unwrap_or(1);
        let mut rng = rand_xoshiro::Xoshiro256PlusPlus::seed_from_u64(seed ^ (len as u64) << 32 ^ 0x636f6e7374);
        let mut w = std::io::BufWriter::new(std::fs::File::create(&trace).expect("trace file"));
        let mut rep = Report::default();
        let runs = 8;
        for _ in 0..runs {
            rep.behaviours += 1;
            match len {
                2 => rechist::record_hist_typed::<Histogram<2>>(&mut w, &mut rng, n / runs, &mut rep),
                3 => rechist::record_hist_typed::<Histogram<3>>(&mut w, &mut rng, n / runs, &mut rep),
                10 => rechist::record_hist_typed::<Histogram<10>>(&mut w, &mut rng, n / runs, &mut rep),
                100 => rechist::record_hist_typed::<Histogram<100>>(&mut w, &mut rng, n / runs, &mut rep),
                _ => panic!("no recorder for LEN {len}"),
            }
        }
        use std::io::Write;
        w.flush().unwrap();
        rep.counters.insert("traces".into(), rep.behaviours);
        let mut j = rep.to_json();
        j["traces"] = serde_json::json!(rep.behaviours);
        j["wall_s"] = serde_json::json!(t0.elapsed().as_secs_f64());
        std::fs::write(out.expect("--out"), serde_json::to_string_pretty(&j).unwrap()).unwrap();
        return;
    }
    let input = get("--input").expect("--input");
    let prop = get("--prop").expect("--prop");
    let f = std::fs::File::open(&input).expect("input");
    let want = HWant { prop };
    // bounded batches: thorough-tier generator outputs are large
    let parse = |l: &String| -> Value {
        if l.starts_with('{') {
            serde_json::from_str::<Value>(l).unwrap()
        } else {
            let inner: String = serde_json::from_str(l).unwrap();
            serde_json::from_str::<Value>(&inner).unwrap()
        }
    };
    let run = |batch: &Vec<String>| -> Report {
        batch
            .par_iter()
            .fold(Report::default, |mut r, l| {
                process_line(&parse(l), &want, &mut r);
                r
            })
            .reduce(Report::default, Report::merge)
    };
    let mut rep = Report::default();
    let mut batch: Vec<String> = Vec::new();
    for l in BufReader::new(f).lines() {
        let l = l.unwrap();
        if l.starts_with("\"{") || l.starts_with('{') {
            batch.push(l);
            if batch.len() >= 20_000 {
                rep = rep.merge(run(&batch));
                batch.clear();
            }
        }
    }
    if !batch.is_empty() {
        rep = rep.merge(run(&batch));
    }
    let mut j = rep.to_json();
    j["wall_s"] = serde_json::json!(t0.elapsed().as_secs_f64());
    j["args"] = serde_json::json!(args);
    let s = serde_json::to_string_pretty(&j).unwrap();
    match out {
        Some(p) => std::fs::write(p, s).unwrap(),
        None => println!("{s}"),
    }
    if !rep.tool_errors.is_empty() {
        std::process::exit(2);
    }
}
