---------------------------- MODULE Ind_Skewness ----------------------------
(***************************************************************************)
(* Unbounded algebraic layer (Apalache), order 3: Terriberry's update of   *)
(* the third central sum (src/moments/skewness.rs, add_inner) with         *)
(* denominators cleared.  t = n * sum_2, c = n^2 * sum_3, d = n x - s.     *)
(*   sum_3' = sum_3 + term * delta_n * (n' - 2) - 3 * delta_n * sum_2      *)
(*   <=>  n^2 * c' = (n + 1)^2 * c + (n - 1) * d^3 - 3 * (n + 1) * d * t   *)
(*   and  n * t'   = (n + 1) * t + d^2                                     *)
(* Invariant: t = n q - s^2,  c = n^2 r - 3 n s q + 2 s^3                  *)
(* (q = sum x^2, r = sum x^3), i.e. sum_3 = sum (x - mean)^3.              *)
(* Non-linear integer arithmetic of degree 5: attempted under a timeout;   *)
(* reported as "not discharged" when the solver gives up.                  *)
(***************************************************************************)
EXTENDS Integers

VARIABLES
    \* @type: Int;
    n,
    \* @type: Int;
    s,
    \* @type: Int;
    q,
    \* @type: Int;
    r,
    \* @type: Int;
    t,
    \* @type: Int;
    c

IndInv == /\ n >= 0
          /\ t = n * q - s * s
          /\ c = n * n * r - 3 * n * s * q + 2 * s * s * s
          /\ (n = 0 => (s = 0 /\ q = 0 /\ r = 0))

IndInit == n \in Int /\ s \in Int /\ q \in Int /\ r \in Int /\ t \in Int /\ c \in Int /\ IndInv

Init == n = 0 /\ s = 0 /\ q = 0 /\ r = 0 /\ t = 0 /\ c = 0

Add == \E x \in Int :
    LET d == n * x - s IN
    /\ n' = n + 1 /\ s' = s + x /\ q' = q + x * x /\ r' = r + x * x * x
    /\ IF n = 0 THEN t' = 0 /\ c' = 0
       ELSE /\ \E tn \in Int : n * tn = (n + 1) * t + d * d /\ t' = tn
            /\ \E cn \in Int : n * n * cn = (n + 1) * (n + 1) * c + (n - 1) * d * d * d - 3 * (n + 1) * d * t /\ c' = cn

Next == Add \/ UNCHANGED <<n, s, q, r, t, c>>
=============================================================================
