--------------------------- MODULE MC_QuantileBig ---------------------------
(***************************************************************************)
(* QuantileBig!StepB is Quantile!Step: on every reachable state of the     *)
(* bounded Quantile model with at least five observations and for every    *)
(* next observation of the alphabet the two steps agree (heights,          *)
(* positions, desired positions), and StepSetB with tolerance 0 is the     *)
(* singleton of that step.                                                 *)
(***************************************************************************)
EXTENDS Quantile, TLC
B == INSTANCE QuantileBig
CONSTANTS MaxLen
MCAlphabet == {0, 1, 3}
MCPSet == {Zero, Norm(3, 4), Norm(1, 3)}
LenBound == cnt <= MaxLen

OfRat(r) == B!QFrac(r[1], r[2])
ToRat(v) == <<B!BToInt(v[1]), B!BToInt(v[2])>>

StepAgrees ==
    cnt >= 5 =>
        \A x \in Alphabet :
            LET a  == Step(q, pos, des, x)
                hb == [i \in Five |-> OfRat(q[i])]
                mb == [i \in Five |-> OfRat(des[i])]
                b  == B!StepB(hb, pos, mb, OfRat(R(x)), OfRat(p))
                S  == B!StepSetB(hb, pos, b.m, OfRat(R(x)), B!QZero)
            IN  /\ [i \in Five |-> ToRat(b.h[i])] = a.h
                /\ b.n = a.n
                /\ [i \in Five |-> ToRat(b.m[i])] = a.m
                /\ S = {b}
=============================================================================
