------------------------------- MODULE Rat -------------------------------
(***************************************************************************)
(* Exact rational arithmetic over TLC's integers.                          *)
(*                                                                         *)
(* A rational is a pair <<num, den>> with den > 0 and gcd(|num|, den) = 1, *)
(* zero is <<0, 1>>.  Because the representation is canonical, equality of *)
(* rationals is structural equality of the pairs.                          *)
(*                                                                         *)
(* TLC integers are 32 bit and TLC raises an error on overflow (it never   *)
(* wraps), so every operation below is arranged to keep intermediates as   *)
(* small as the reduced result allows: multiplication cross-cancels first, *)
(* addition goes through the lcm of the denominators.                      *)
(***************************************************************************)
EXTENDS Integers

IAbs(x) == IF x < 0 THEN -x ELSE x
ISign(x) == IF x < 0 THEN -1 ELSE IF x = 0 THEN 0 ELSE 1

RECURSIVE GCD(_, _)
GCD(a, b) == IF b = 0 THEN a ELSE GCD(b, a % b)

RECURSIVE IPow(_, _)
IPow(b, e) == IF e = 0 THEN 1 ELSE b * IPow(b, e - 1)

\* canonical form of n/d, d # 0
Norm(n, d) ==
    IF n = 0 THEN <<0, 1>>
    ELSE LET g == GCD(IAbs(n), IAbs(d))
             s == IF d < 0 THEN -1 ELSE 1
         IN  <<s * (n \div g), s * (d \div g)>>

IsRat(r) == /\ r \in Int \X Int
            /\ r[2] > 0
            /\ GCD(IAbs(r[1]), r[2]) = 1

Zero == <<0, 1>>
One  == <<1, 1>>
R(i) == <<i, 1>>             \* integer to rational
Frac(n, d) == Norm(n, d)

RNeg(a) == <<-a[1], a[2]>>
RAbs(a) == <<IAbs(a[1]), a[2]>>
RSign(a) == ISign(a[1])
RIsZero(a) == a[1] = 0

RAdd(a, b) ==
    IF a[1] = 0 THEN b ELSE IF b[1] = 0 THEN a ELSE
    LET g == GCD(a[2], b[2])
        ad == a[2] \div g
        bd == b[2] \div g
    IN  Norm(a[1] * bd + b[1] * ad, ad * b[2])

RSub(a, b) == RAdd(a, RNeg(b))

RMul(a, b) ==
    IF a[1] = 0 \/ b[1] = 0 THEN Zero ELSE
    LET g1 == GCD(IAbs(a[1]), b[2])
        g2 == GCD(IAbs(b[1]), a[2])
    IN  <<(a[1] \div g1) * (b[1] \div g2), (a[2] \div g2) * (b[2] \div g1)>>

RInv(a) == IF a[1] < 0 THEN <<-a[2], -a[1]>> ELSE <<a[2], a[1]>>   \* a # 0
RDiv(a, b) == RMul(a, RInv(b))

RMulI(a, i) == RMul(a, R(i))
RDivI(a, i) == RMul(a, Norm(1, i))

RECURSIVE RPow(_, _)
RPow(a, e) == IF e = 0 THEN One ELSE RMul(a, RPow(a, e - 1))

RLt(a, b) == RSign(RSub(a, b)) < 0
RLe(a, b) == RSign(RSub(a, b)) <= 0
RGt(a, b) == RLt(b, a)
RGe(a, b) == RLe(b, a)
RMin(a, b) == IF RLe(a, b) THEN a ELSE b
RMax(a, b) == IF RLe(a, b) THEN b ELSE a

\* floor and ceiling of a rational (used by the small-sample quantile index)
RFloor(a) == a[1] \div a[2]
RCeil(a)  == -((-a[1]) \div a[2])
RIsInt(a) == a[2] = 1
=============================================================================
