\* two slots, every history of add / merge / clone / fresh with at most MaxLen observations per slot
SPECIFICATION Spec
CONSTANTS
  Slots = {1, 2}
  Alphabet <- MCAlphabetSmall
  P = 4
  MaxLen = 3
CONSTRAINT LenBound
INVARIANTS TypeOK LenExact AlgIsDef ChainIsPebay OrderFree VarNonNeg MeanInRange ShortcutsSound SampleDefs Sentinels
PROPERTY MergeLaws
CHECK_DEADLOCK FALSE
