---------------------------- MODULE QuantileBig ----------------------------
(***************************************************************************)
(* The P-square step of Quantile.tla (Step: boxes B1, B2, B3) over the     *)
(* unbounded rationals of BigQ.tla, so that TLC can apply it to marker     *)
(* states of the real code after thousands of observations (heights are    *)
(* arbitrary f64 values, i.e. dyadic rationals of a thousand bits).        *)
(*                                                                         *)
(* It is the same step, operator for operator (FirstShift, Extremes,       *)
(* Parabolic, Linear, MoveDir, AdjustOne); MC_QuantileBig.tla checks       *)
(* StepB = Quantile!Step on every reachable state of the bounded model.    *)
(*                                                                         *)
(* One thing is added for use on rounded states: the acceptance test of    *)
(* the parabolic candidate ("strictly between the neighbouring heights")   *)
(* is the only comparison of the step that involves a COMPUTED value, so   *)
(* it is the only one an f64 implementation may legitimately decide the    *)
(* other way - when the exact candidate is within rounding of a            *)
(* neighbour.  AdjustSet returns, for a tolerance tol, the set of outcomes *)
(* of one marker adjustment that are consistent with the exact step up to  *)
(* tol at that comparison; with tol = 0 it is the singleton {AdjustOne}.   *)
(* All other comparisons (cell search, move conditions) are on values the  *)
(* implementation holds exactly and are decided exactly.                   *)
(***************************************************************************)
EXTENDS BigQ

Five == 1..5

DmB(pp) == <<QZero, QDivI(pp, 2), pp, QDivI(QAdd(QOne, pp), 2), QOne>>

FirstShiftB(h, x) ==
    IF QLt(x, h[1]) THEN 2
    ELSE IF QLt(x, h[2]) THEN 2
    ELSE IF QLt(x, h[3]) THEN 3
    ELSE IF QLt(x, h[4]) THEN 4
    ELSE 5
ExtremesB(h, x) ==
    IF QLt(x, h[1]) THEN [h EXCEPT ![1] = x]
    ELSE IF QLt(h[5], x) THEN [h EXCEPT ![5] = x]
    ELSE h

ParabolicB(h, n, i, s) ==
    QAdd(h[i],
         QMul(QFrac(s, n[i + 1] - n[i - 1]),
              QAdd(QDivI(QMulI(QSub(h[i + 1], h[i]), n[i] - n[i - 1] + s), n[i + 1] - n[i]),
                   QDivI(QMulI(QSub(h[i], h[i - 1]), n[i + 1] - n[i] - s), n[i] - n[i - 1]))))

LinearB(h, n, i, s) ==
    QAdd(h[i], QDivI(QMulI(QSub(h[i + s], h[i]), s), n[i + s] - n[i]))

MoveDirB(n, m, i) ==
    LET d == QSub(m[i], Q(n[i])) IN
    IF QLe(QOne, d) /\ n[i + 1] - n[i] > 1 THEN 1
    ELSE IF QLe(d, Q(-1)) /\ n[i - 1] - n[i] < -1 THEN -1
    ELSE 0

AdjustOneB(hn, m, i) ==
    LET h == hn[1] n == hn[2] s == MoveDirB(n, m, i) IN
    IF s = 0 THEN hn
    ELSE LET qn == ParabolicB(h, n, i, s)
             hv == IF QLt(h[i - 1], qn) /\ QLt(qn, h[i + 1]) THEN qn ELSE LinearB(h, n, i, s)
         IN  <<[h EXCEPT ![i] = hv], [n EXCEPT ![i] = n[i] + s]>>

\* the step, given the desired positions m1 AFTER their increment
StepFromB(h, n, m1, x) ==
    LET k1 == FirstShiftB(h, x)
        h1 == ExtremesB(h, x)
        n1 == [i \in Five |-> IF i >= k1 THEN n[i] + 1 ELSE n[i]]
        a2 == AdjustOneB(<<h1, n1>>, m1, 2)
        a3 == AdjustOneB(a2, m1, 3)
        a4 == AdjustOneB(a3, m1, 4)
    IN  [h |-> a4[1], n |-> a4[2], m |-> m1]

StepB(h, n, m, x, pp) == StepFromB(h, n, [i \in Five |-> QAdd(m[i], DmB(pp)[i])], x)

(***************************************************************************)
(* outcomes consistent with the exact step up to tol at the acceptance test*)
(***************************************************************************)
AdjustSetB(hn, m, i, tol) ==
    LET h == hn[1] n == hn[2] s == MoveDirB(n, m, i) IN
    IF s = 0 THEN {hn}
    ELSE LET qn  == ParabolicB(h, n, i, s)
             lin == LinearB(h, n, i, s)
             inside  == QLt(QAdd(h[i - 1], tol), qn) /\ QLt(qn, QSub(h[i + 1], tol))      \* clearly accepted
             outside == QLe(qn, QSub(h[i - 1], tol)) \/ QLe(QAdd(h[i + 1], tol), qn)      \* clearly refused
             vals == IF inside THEN {qn} ELSE IF outside THEN {lin} ELSE {qn, lin}
         IN  {<<[h EXCEPT ![i] = hv], [n EXCEPT ![i] = n[i] + s]>> : hv \in vals}

StepSetB(h, n, m1, x, tol) ==
    LET k1 == FirstShiftB(h, x)
        h1 == ExtremesB(h, x)
        n1 == [i \in Five |-> IF i >= k1 THEN n[i] + 1 ELSE n[i]]
        A2 == AdjustSetB(<<h1, n1>>, m1, 2, tol)
        A3 == UNION {AdjustSetB(a, m1, 3, tol) : a \in A2}
        A4 == UNION {AdjustSetB(a, m1, 4, tol) : a \in A3}
    IN  {[h |-> a[1], n |-> a[2], m |-> m1] : a \in A4}
=============================================================================
