------------------------------ MODULE Trace_Len ------------------------------
(***************************************************************************)
(* Trace specification for the length bookkeeping of every Merge type      *)
(* (C11, C02): validates long random histories of new / add / merge /      *)
(* clone recorded from the real estimators (moment family, weighted,       *)
(* covariance) against the abstract state "number of observations absorbed *)
(* by each object".  One object namespace per trace; everything logged is  *)
(* an integer or a boolean.                                                *)
(*   {"op":"new","id":i}                    T::new() / Default::default()  *)
(*   {"op":"add","id":i,"len":n,"empty":b}                                 *)
(*   {"op":"merge","dst":i,"src":j,"len":n,"srclen":m,"empty":b}           *)
(*   {"op":"clone","dst":i,"src":j,"len":n}                                *)
(*   {"op":"restart"}                       a new run (new type)           *)
(* The abstract actions are those of every family specification restricted *)
(* to the component n: Add increments, Merge adds the source's length and  *)
(* leaves the source alone, Clone copies.                                  *)
(***************************************************************************)
EXTENDS Integers, Sequences, FiniteSets, TLC, Json, IOUtils

Rec == ndJsonDeserialize(IOEnv.TRACE)

VARIABLES l, len      \* len: [object ids -> Nat]

tvars == <<l, len>>

TInit == l = 1 /\ len = [o \in {} |-> 0]

Ev == Rec[l]
IsEvent(name) == l <= Len(Rec) /\ Ev.op = name /\ l' = l + 1

Set(o, v) == [x \in DOMAIN len \cup {o} |-> IF x = o THEN v ELSE len[x]]

TNew == IsEvent("new") /\ len' = Set(Ev.id, 0) /\ Ev.len = 0 /\ Ev.empty
TAdd == /\ IsEvent("add") /\ Ev.id \in DOMAIN len
        /\ len' = Set(Ev.id, len[Ev.id] + 1)
        /\ Ev.len = len'[Ev.id] /\ ~Ev.empty
TMerge == /\ IsEvent("merge") /\ Ev.dst \in DOMAIN len /\ Ev.src \in DOMAIN len /\ Ev.dst # Ev.src
          /\ len' = Set(Ev.dst, len[Ev.dst] + len[Ev.src])
          /\ Ev.len = len'[Ev.dst]                       \* lengths add exactly
          /\ Ev.srclen = len[Ev.src]                     \* merge does not modify its argument
          /\ Ev.empty = (len'[Ev.dst] = 0)               \* is_empty() <=> len() = 0
TClone == /\ IsEvent("clone") /\ Ev.src \in DOMAIN len
          /\ len' = Set(Ev.dst, len[Ev.src])
          /\ Ev.len = len[Ev.src]
TRestart == IsEvent("restart") /\ len' = [o \in {} |-> 0]

TNext == TNew \/ TAdd \/ TMerge \/ TClone \/ TRestart

TSpec == TInit /\ [][TNext]_tvars

Accepted ==
    LET d == TLCGet("stats").diameter IN
    IF d - 1 = Len(Rec) THEN PrintT("TRACE-ACCEPTED " \o ToString(Len(Rec)))
    ELSE PrintT("TRACE-REJECTED first unmatched event " \o ToString(d) \o ": "
                \o (IF d <= Len(Rec) THEN ToJson(Rec[d]) ELSE "none"))
=============================================================================
