SPECIFICATION GSpec
CONSTANTS
  Slots = {1,2}
  Mode = "hist"
  MaxLen = 3
  MaxDepth = 3
INVARIANT Emit
CHECK_DEADLOCK FALSE
