--------------------------- MODULE MC_Histogram ---------------------------
EXTENDS Histogram, TLC
CONSTANTS MaxCount,       \* bound on the total count of any histogram
          BuildLen,       \* lists of length 0..BuildLen are offered to from_ranges
          Fixed           \* TRUE: build only from the small fixed set of edge lists (merge configs)

RECURSIVE ListsOfLen(_)
ListsOfLen(n) == IF n = 0 THEN {<<>>} ELSE {Append(l, t) : l \in ListsOfLen(n - 1), t \in Tokens}
AllLists == UNION {ListsOfLen(n) : n \in 0..BuildLen}

\* a few edge vectors for the merge / view configurations (LEN = 2)
FixedLists == IF LEN = 2
              THEN {<<"pz", "one", "two">>, <<"nz", "one", "two">>, <<"ninf", "pz", "pinf">>,
                    <<"pz", "pz", "one">>, <<"m1", "one", "one">>, <<"pz", "nan", "two">>,
                    <<"pz", "one_up", "two">>, <<"tiny", "one", "two">>}
              ELSE IF LEN = 1 THEN {<<"pz", "one">>, <<"nz", "one">>, <<"ninf", "pinf">>, <<"one", "one">>}
              ELSE {<<"m1", "pz", "one", "two">>, <<"m1", "nz", "one", "two">>, <<"ninf", "pz", "pz", "pinf">>}

BuildLists == IF Fixed THEN FixedLists ELSE AllLists

AddSamples == IF Fixed THEN {NaNSample, NegZeroSample, -1000, 10, 20, 39, 40} ELSE Samples

Tot(s) == IF hist[s].built THEN SumBins(hist[s].bins) ELSE 0
\* the count bound is an enabling condition (a CONSTRAINT would still generate, and count, the
\* states one step beyond it)
Next ==
    \/ \E s \in Slots, l \in BuildLists : (Fixed \/ ~hist[s].built) /\ Build(s, l)
    \/ \E s \in Slots, x \in AddSamples : Tot(s) < MaxCount /\ AddSample(s, x)
    \/ \E d, s \in Slots : Tot(d) + Tot(s) <= MaxCount /\ (Merge(d, s) \/ AddAssign(d, s))
    \/ \E d, s \in Slots : Clone(d, s)
    \/ \E s \in Slots, k \in {0, 2} : Tot(s) * k <= MaxCount /\ MulAssign(s, k)
    \/ \E s \in Slots : Reset(s) \/ Checkpoint(s)

Spec == Init /\ [][Next]_vars

CountBound == \A s \in Slots : hist[s].built => SumBins(hist[s].bins) <= MaxCount

\* `last` is an observation, not behaviour
View == <<hist, ghost>>

\* C12, over every list offered
ASSUME \A l \in AllLists : FromRangesIsDef(l)

\* C12: equal-width edges, exact arithmetic: first = start, last = end, strictly increasing
ASSUME \A a \in -3..3, b \in -3..3 : a < b => ConstWidthOK(R(a), R(b))

\* C13 / C11: error paths and algebra of merge, stated over every step
CombineLaws ==
    [][(last'.op \in {"merge", "addassign"} /\ ~last'.panic) =>
          \E d, s \in Slots :
              /\ d # s /\ SameEdges(hist[d], hist[s])
              /\ hist'[d].bins = [i \in 1..LEN |-> hist[d].bins[i] + hist[s].bins[i]]
              /\ hist'[d].edges = hist[d].edges
              /\ \A o \in Slots \ {d} : hist'[o] = hist[o]]_vars
PanicChangesNothing ==
    [][(last'.op \in {"merge", "addassign"} /\ last'.panic) => hist' = hist /\ ghost' = ghost]_vars
FailedAddChangesNothing ==
    [][(last'.op = "add" /\ ~last'.ok) => hist' = hist /\ ghost' = ghost]_vars
=============================================================================
