SPECIFICATION GSpec
CONSTANTS
  Slots = {1, 2, 3, 4, 5, 6}
  Alphabet <- GenAlphabetSmall
  P = 4
  Mode = "rayon"
  MaxLen = 4
  MaxDepth = 0
INVARIANT Emit
CHECK_DEADLOCK FALSE
