SPECIFICATION GSpec
CONSTANTS
  Slots = {1, 2}
  Alphabet <- GenAlphabetSmall
  P = 4
  Mode = "hist"
  MaxLen = 4
  MaxDepth = 4
INVARIANT Emit
CHECK_DEADLOCK FALSE
