---------------------------- MODULE MC_Weighted ----------------------------
EXTENDS Weighted
CONSTANTS MaxLen
MCValues == {-1, 0, 2}
MCWeights == {0, 1, 3}
MCWeightsWide == {0, 1, 4096}
LenBound == \A s \in Slots : Len(data[s]) <= MaxLen
=============================================================================
