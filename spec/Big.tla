-------------------------------- MODULE Big --------------------------------
(***************************************************************************)
(* Unbounded integers for TLC.                                             *)
(*                                                                         *)
(* TLC's integers are 32 bit.  The exact statistics of a stream of f64     *)
(* values (every finite f64 is the dyadic rational m * 2^e) need integers  *)
(* of a few thousand bits, so this module defines them in plain TLA+:      *)
(*                                                                         *)
(*     a big integer is  <<sign, limbs>>,  sign in {-1, 0, 1},             *)
(*     limbs a sequence of base-10000 digits, least significant first,     *)
(*     without a leading (= last) zero limb; zero is <<0, <<>>>>.          *)
(*                                                                         *)
(* The representation is canonical, so equality is structural equality.    *)
(* Every operator below has a complete TLA+ definition (schoolbook         *)
(* arithmetic on the limbs; division and square root by doubling), which   *)
(* TLC can evaluate as it stands.  For speed the operators marked          *)
(* (override) are also implemented in Big.java on java.math.BigInteger;    *)
(* TLC loads Big.class from the directory of this module when it is there. *)
(* MC_Big.tla checks the TLA+ definitions against TLC's native integers on *)
(* a range of small values and the overrides against the TLA+ definitions  *)
(* (the operators with suffix P are never overridden) on large ones.       *)
(***************************************************************************)
EXTENDS Integers, Sequences

Base == 10000

BZero == <<0, <<>>>>

(***************************************************************************)
(* magnitudes: limb sequences                                              *)
(***************************************************************************)
RECURSIVE Strip(_)
Strip(d) == IF d = <<>> THEN d
            ELSE IF d[Len(d)] = 0 THEN Strip(SubSeq(d, 1, Len(d) - 1)) ELSE d

Hd(d) == IF d = <<>> THEN 0 ELSE Head(d)
Tl(d) == IF d = <<>> THEN <<>> ELSE Tail(d)

RECURSIVE MAddC(_, _, _)
MAddC(a, b, c) ==
    IF a = <<>> /\ b = <<>> THEN (IF c = 0 THEN <<>> ELSE <<c>>)
    ELSE LET x == Hd(a) + Hd(b) + c
         IN  <<x % Base>> \o MAddC(Tl(a), Tl(b), x \div Base)
MAdd(a, b) == MAddC(a, b, 0)

\* compare magnitudes: -1, 0, 1
RECURSIVE MCmpFrom(_, _, _)
MCmpFrom(a, b, i) == IF i = 0 THEN 0
                     ELSE IF a[i] < b[i] THEN -1
                     ELSE IF a[i] > b[i] THEN 1
                     ELSE MCmpFrom(a, b, i - 1)
MCmp(a, b) == IF Len(a) < Len(b) THEN -1
              ELSE IF Len(a) > Len(b) THEN 1
              ELSE MCmpFrom(a, b, Len(a))

\* a - b for MCmp(a, b) >= 0 (result not stripped)
RECURSIVE MSubB(_, _, _)
MSubB(a, b, br) ==
    IF a = <<>> THEN <<>>
    ELSE LET x == Head(a) - Hd(b) - br
         IN  IF x < 0 THEN <<x + Base>> \o MSubB(Tail(a), Tl(b), 1)
                      ELSE <<x>> \o MSubB(Tail(a), Tl(b), 0)
MSub(a, b) == Strip(MSubB(a, b, 0))

\* a * k + c for a limb k in 0..Base-1
RECURSIVE MMulSmallC(_, _, _)
MMulSmallC(a, k, c) ==
    IF a = <<>> THEN (IF c = 0 THEN <<>> ELSE <<c>>)
    ELSE LET x == Head(a) * k + c
         IN  <<x % Base>> \o MMulSmallC(Tail(a), k, x \div Base)

RECURSIVE MMul(_, _)
MMul(a, b) == IF a = <<>> \/ b = <<>> THEN <<>>
              ELSE Strip(MAdd(MMulSmallC(a, Head(b), 0),
                              LET r == MMul(a, Tail(b)) IN IF r = <<>> THEN <<>> ELSE <<0>> \o r))

(***************************************************************************)
(* signed integers.  The operators with suffix P are the reference         *)
(* definitions (never overridden); the unsuffixed ones are what            *)
(* specifications use (override).                                          *)
(***************************************************************************)
Mk(s, d) == LET e == Strip(d) IN IF e = <<>> THEN BZero ELSE <<s, e>>

IsBig(a) == /\ a[1] \in {-1, 0, 1}
            /\ \A i \in 1..Len(a[2]) : a[2][i] \in 0..(Base - 1)
            /\ (a[1] = 0) = (a[2] = <<>>)
            /\ (a[2] # <<>> => a[2][Len(a[2])] # 0)

RECURSIVE LimbsOf(_)
LimbsOf(n) == IF n = 0 THEN <<>> ELSE <<n % Base>> \o LimbsOf(n \div Base)
BInt(i) == IF i = 0 THEN BZero ELSE IF i > 0 THEN <<1, LimbsOf(i)>> ELSE <<-1, LimbsOf(-i)>>

\* back to a TLC integer (only for values known to be small)
RECURSIVE MToInt(_)
MToInt(d) == IF d = <<>> THEN 0 ELSE Head(d) + Base * MToInt(Tail(d))
BToInt(a) == a[1] * MToInt(a[2])

BSign(a) == a[1]
BNeg(a) == <<-a[1], a[2]>>
BAbs(a) == IF a[1] = 0 THEN a ELSE <<1, a[2]>>

BAddP(a, b) ==
    IF a[1] = 0 THEN b ELSE IF b[1] = 0 THEN a
    ELSE IF a[1] = b[1] THEN <<a[1], MAdd(a[2], b[2])>>
    ELSE LET c == MCmp(a[2], b[2])
         IN  IF c = 0 THEN BZero
             ELSE IF c > 0 THEN Mk(a[1], MSub(a[2], b[2]))
             ELSE Mk(b[1], MSub(b[2], a[2]))
BSubP(a, b) == BAddP(a, BNeg(b))
BMulP(a, b) == IF a[1] = 0 \/ b[1] = 0 THEN BZero ELSE <<a[1] * b[1], MMul(a[2], b[2])>>
BCmpP(a, b) == IF a[1] # b[1] THEN (IF a[1] < b[1] THEN -1 ELSE 1)
               ELSE IF a[1] = 0 THEN 0
               ELSE a[1] * MCmp(a[2], b[2])

BAdd(a, b) == BAddP(a, b)                                      \* (override)
BSub(a, b) == BSubP(a, b)                                      \* (override)
BMul(a, b) == BMulP(a, b)                                      \* (override)
BCmp(a, b) == BCmpP(a, b)                                      \* (override)

BLe(a, b) == BCmp(a, b) <= 0
BLt(a, b) == BCmp(a, b) < 0
BMulI(a, i) == BMul(a, BInt(i))
BMax(a, b) == IF BLe(a, b) THEN b ELSE a

RECURSIVE BPowP(_, _)
BPowP(a, k) == IF k = 0 THEN BInt(1) ELSE BMulP(a, BPowP(a, k - 1))
BPow(a, k) == BPowP(a, k)                                      \* (override)
BPow2(k) == BPow(BInt(2), k)

(***************************************************************************)
(* floor division of a >= 0 by b > 0, by doubling:                         *)
(*   a = q*b + r, 0 <= r < b.   Result <<q, r>>.                           *)
(***************************************************************************)
RECURSIVE BDivModP(_, _)
BDivModP(a, b) ==
    IF BCmpP(a, b) < 0 THEN <<BZero, a>>
    ELSE LET h == BDivModP(a, BAddP(b, b))        \* a = h.q * 2b + h.r
             q2 == BAddP(h[1], h[1])
         IN  IF BCmpP(h[2], b) >= 0 THEN <<BAddP(q2, BInt(1)), BSubP(h[2], b)>>
                                    ELSE <<q2, h[2]>>
BDivMod(a, b) == BDivModP(a, b)                                \* (override)
BDiv(a, b) == BDivMod(a, b)[1]
BMod(a, b) == BDivMod(a, b)[2]

RECURSIVE BGcdP(_, _)
BGcdP(a, b) == IF b[1] = 0 THEN a ELSE BGcdP(b, BDivModP(a, b)[2])     \* a, b >= 0
BGcd(a, b) == BGcdP(a, b)                                      \* (override)

(***************************************************************************)
(* floor of the square root of a >= 0:                                     *)
(*   isqrt(a) = IF a < 2 THEN a ELSE s or s+1 with s = 2*isqrt(a div 4)    *)
(***************************************************************************)
RECURSIVE BSqrtP(_)
BSqrtP(a) ==
    IF BCmpP(a, BInt(2)) < 0 THEN a
    ELSE LET s  == LET h == BSqrtP(BDivModP(a, BInt(4))[1]) IN BAddP(h, h)
             s1 == BAddP(s, BInt(1))
         IN  IF BCmpP(BMulP(s1, s1), a) <= 0 THEN s1 ELSE s
BSqrt(a) == BSqrtP(a)                                          \* (override)
=============================================================================
