---------------------------- MODULE Trace_Pairs ----------------------------
(***************************************************************************)
(* Trace specification for the pair estimators - Covariance ("cov"),       *)
(* WeightedMeanWithError ("wme"), WeightedMean ("wm") - fed ARBITRARY f64  *)
(* pairs: C08 C09 (and their parts of C11 C16 C17 C20).                    *)
(*                                                                         *)
(* As in Trace_Moments.tla every logged number is the exact dyadic         *)
(* rational the f64 is; the abstract state of an object is the size and    *)
(* the exact sums  sum a, sum b, sum a^2, sum b^2, sum a*b  of the pairs   *)
(* (a, b) it stands for - for the weighted types (a, b) = (x, w), so       *)
(* sum b, sum b^2, sum a*b are the weight sum, the sum of squared weights  *)
(* and the weighted sum.  All of them are additive under merge and under   *)
(* collect / extend ("batch" events: the property says "however the        *)
(* estimator was built").  At every "obs" event TLC evaluates the exact    *)
(* statistics (BigStats) and decides the envelopes of DESIGN.md section 5  *)
(* as exact rational inequalities, the sentinel tables of Weighted.tla /   *)
(* Covariance.tla, and C17's sign / range conditions.                      *)
(*                                                                         *)
(*   {"op":"restart"}                                                      *)
(*   {"op":"new","id":i,"ty":"cov"|"wme"|"wm"}                             *)
(*   {"op":"add","id":i,"a":D,"b":D}            D = {"m":[s,[limbs]],"e":e}*)
(*   {"op":"batch","id":i,"fresh":bool,"ty":t,"xs":[[D,D],..]}             *)
(*        collect (fresh) or extend of a sequence, by value or reference   *)
(*   {"op":"merge","dst":i,"src":j} {"op":"clone","dst":i,"src":j}         *)
(*   {"op":"serde","id":i}                                                 *)
(*   {"op":"obs","id":i,"len":n,"st":{accessor: V, ..}}   V as Trace_Moments*)
(***************************************************************************)
EXTENDS BigStats, TLC, Json, IOUtils

Rec == ndJsonDeserialize(IOEnv.TRACE)

VARIABLES l, ty, st, ao
\* st[i] = [n, sa, sb, saa, sbb, sab : sums;  amax, bmax : max |a|, |b|;  alo, ahi, blo, bhi : ranges;
\*          cmax, clo, chi : max |a| / range of a over the pairs with b > 0 ("contributing");  nc : their number;
\*          dom : all values in the domain of the envelope properties]
tvars == <<l, ty, st, ao>>

Empty == [o \in {} |-> 0]
TInit == TLCSet(1, 0) /\ TLCSet(2, 0) /\ TLCSet(3, 0) /\ TLCSet(4, 0) /\ l = 1 /\ ty = Empty /\ st = Empty /\ ao = Empty

Ev == Rec[l]
IsEvent(name) == l <= Len(Rec) /\ Ev.op = name /\ l' = l + 1
Put(f, o, v) == [x \in DOMAIN f \cup {o} |-> IF x = o THEN v ELSE f[x]]

New0 == [n |-> 0, sa |-> QZero, sb |-> QZero, saa |-> QZero, sbb |-> QZero, sab |-> QZero,
         amax |-> QZero, bmax |-> QZero, alo |-> QZero, ahi |-> QZero, blo |-> QZero, bhi |-> QZero,
         cmax |-> QZero, clo |-> QZero, chi |-> QZero, nc |-> 0, dom |-> TRUE]

E30 == QPow(Q(10), 30)
E6 == QPow(Q(10), 6)
InDomain(x) == QIsZero(x) \/ (QLe(QInv(E30), QAbs(x)) /\ QLe(QAbs(x), E30))
\* weights: {0} \cup [1e-6, 1e6]
WeightOK(w) == QIsZero(w) \/ (QLe(QInv(E6), w) /\ QLe(w, E6))

AddPair(s, a, b, weighted) ==
    LET first == s.n = 0
        contrib == QSign(b) > 0
        cfirst == s.nc = 0 IN
    [ n |-> s.n + 1,
      sa |-> QAdd(s.sa, a), sb |-> QAdd(s.sb, b),
      saa |-> QAdd(s.saa, QMul(a, a)), sbb |-> QAdd(s.sbb, QMul(b, b)), sab |-> QAdd(s.sab, QMul(a, b)),
      amax |-> QMax(s.amax, QAbs(a)), bmax |-> QMax(s.bmax, QAbs(b)),
      alo |-> IF first THEN a ELSE QMin(s.alo, a), ahi |-> IF first THEN a ELSE QMax(s.ahi, a),
      blo |-> IF first THEN b ELSE QMin(s.blo, b), bhi |-> IF first THEN b ELSE QMax(s.bhi, b),
      cmax |-> IF contrib THEN QMax(s.cmax, QAbs(a)) ELSE s.cmax,
      clo |-> IF ~contrib THEN s.clo ELSE IF cfirst THEN a ELSE QMin(s.clo, a),
      chi |-> IF ~contrib THEN s.chi ELSE IF cfirst THEN a ELSE QMax(s.chi, a),
      nc |-> IF contrib THEN s.nc + 1 ELSE s.nc,
      dom |-> s.dom /\ InDomain(a) /\ (IF weighted THEN WeightOK(b) ELSE InDomain(b)) ]

MergeSt(s, t) ==
    IF t.n = 0 THEN s ELSE IF s.n = 0 THEN t ELSE
    [ n |-> s.n + t.n,
      sa |-> QAdd(s.sa, t.sa), sb |-> QAdd(s.sb, t.sb),
      saa |-> QAdd(s.saa, t.saa), sbb |-> QAdd(s.sbb, t.sbb), sab |-> QAdd(s.sab, t.sab),
      amax |-> QMax(s.amax, t.amax), bmax |-> QMax(s.bmax, t.bmax),
      alo |-> QMin(s.alo, t.alo), ahi |-> QMax(s.ahi, t.ahi),
      blo |-> QMin(s.blo, t.blo), bhi |-> QMax(s.bhi, t.bhi),
      cmax |-> QMax(s.cmax, t.cmax),
      clo |-> IF t.nc = 0 THEN s.clo ELSE IF s.nc = 0 THEN t.clo ELSE QMin(s.clo, t.clo),
      chi |-> IF t.nc = 0 THEN s.chi ELSE IF s.nc = 0 THEN t.chi ELSE QMax(s.chi, t.chi),
      nc |-> s.nc + t.nc,
      dom |-> s.dom /\ t.dom ]

Dy(d) == QDy(d.m, d.e)
Weighted(t) == t \in {"wme", "wm"}

RECURSIVE FoldPairs(_, _, _, _)
FoldPairs(s, xs, i, w) == IF i > Len(xs) THEN s ELSE FoldPairs(AddPair(s, Dy(xs[i][1]), Dy(xs[i][2]), w), xs, i + 1, w)

TRestart == IsEvent("restart") /\ ty' = Empty /\ st' = Empty /\ ao' = Empty
TNew == /\ IsEvent("new")
        /\ ty' = Put(ty, Ev.id, Ev.ty) /\ st' = Put(st, Ev.id, New0) /\ ao' = Put(ao, Ev.id, TRUE)
TAdd == /\ IsEvent("add") /\ Ev.id \in DOMAIN st
        /\ st' = Put(st, Ev.id, AddPair(st[Ev.id], Dy(Ev.a), Dy(Ev.b), Weighted(ty[Ev.id])))
        /\ UNCHANGED <<ty, ao>>
\* collect / extend: the meaning is the add loop (Ingest.tla)
TBatch == /\ IsEvent("batch") /\ (Ev.fresh \/ Ev.id \in DOMAIN st)
          /\ LET s0 == IF Ev.fresh THEN New0 ELSE st[Ev.id]
                 t  == IF Ev.fresh THEN Ev.ty ELSE ty[Ev.id] IN
             /\ st' = Put(st, Ev.id, FoldPairs(s0, Ev.xs, 1, Weighted(t)))
             /\ ty' = Put(ty, Ev.id, t)
             /\ ao' = Put(ao, Ev.id, IF Ev.fresh THEN TRUE ELSE ao[Ev.id])
TMerge == /\ IsEvent("merge") /\ Ev.dst \in DOMAIN st /\ Ev.src \in DOMAIN st /\ Ev.dst # Ev.src
          /\ ty[Ev.dst] = ty[Ev.src]
          /\ st' = Put(st, Ev.dst, MergeSt(st[Ev.dst], st[Ev.src]))
          /\ ao' = Put(ao, Ev.dst, IF st[Ev.src].n = 0 THEN ao[Ev.dst] ELSE IF st[Ev.dst].n = 0 THEN ao[Ev.src] ELSE FALSE)
          /\ UNCHANGED ty
TClone == /\ IsEvent("clone") /\ Ev.src \in DOMAIN st
          /\ st' = Put(st, Ev.dst, st[Ev.src]) /\ ty' = Put(ty, Ev.dst, ty[Ev.src]) /\ ao' = Put(ao, Ev.dst, ao[Ev.src])
TSerde == IsEvent("serde") /\ Ev.id \in DOMAIN st /\ UNCHANGED <<ty, st, ao>>

(***************************************************************************)
(* Observations                                                            *)
(***************************************************************************)
Nan == [k |-> "nan"]
Skip == [k |-> "skip"]
Exactly(v) == [k |-> "exact", v |-> v]
Env(iv, tol) == [k |-> "env", iv |-> iv, tol |-> tol]
ValOf(v) == QDy(v.m, v.e)
Bump(r) == TLCSet(r, TLCGet(r) + 1)
Sat(v, e) ==
    CASE e.k = "skip"  -> Bump(4)
      [] e.k = "nan"   -> Bump(3) /\ v.c = "nan"
      [] e.k = "exact" -> Bump(2) /\ v.c = "fin" /\ ValOf(v) = e.v
      [] e.k = "env"   -> Bump(1) /\ v.c = "fin" /\ Within(ValOf(v), e.iv, e.tol)

\* statistics of one coordinate from (n, S1, S2, max |.|)
Coord(n, s1, s2, mx) ==
    LET mu  == QDivI(s1, n)
        var == QSub(QDivI(s2, n), QMul(mu, mu)) IN
    [mu |-> mu, var |-> var, const |-> QIsZero(var), sLo |-> QSqrtLo(var), sHi |-> QSqrtHi(var), mx |-> mx,
     ill |-> QLt(QMulI(QSqrtLo(var), 1000000000), QDiv(QAdd(QSqrtHi(var), mx), <<BInt(1000), B1>>))]
\* C n kappa u
CnKU(C, n, c) == QMul(QMulI(U, C * n), QDiv(QAdd(c.sHi, c.mx), c.sLo))
U4(v) == QMul(QMulI(U, 4), QAbs(v))

Expect(i, a) ==
    LET s == st[i]
        n == s.n
        add == ao[i]
        A == Coord(n, s.sa, s.saa, s.amax)
        B == Coord(n, s.sb, s.sbb, s.bmax)
        dom == s.dom
        \* one-coordinate statistics (moments family rules)
        MeanE(c)  == IF n = 0 THEN Nan
                     ELSE IF c.const THEN (IF add \/ n = 1 THEN Exactly(c.mu) ELSE Skip)
                     ELSE IF ~dom \/ c.ill THEN Skip
                     ELSE Env(Pt(c.mu), QAdd(QMul(QMulI(U, 8 * n), QAdd(c.sHi, c.mx)), U4(c.mu)))
        VarE(c, v, minN) == IF n < minN THEN Nan
                     ELSE IF c.const THEN (IF add \/ n = 1 THEN Exactly(QZero) ELSE Skip)
                     ELSE IF ~dom \/ c.ill THEN Skip
                     ELSE Env(Pt(v), QAdd(QMul(CnKU(16, n, c), v), U4(v)))
        svarA == QMul(A.var, QFrac(n, n - 1))
        svarB == QMul(B.var, QFrac(n, n - 1))
        \* co-moment  sum (a - mean a)(b - mean b) = Sab - Sa Sb / n
        co == QSub(s.sab, QDivI(QMul(s.sa, s.sb), n))
        illAB == A.ill \/ B.ill
        kAB == QMax(CnKU(1, n, A), CnKU(1, n, B))        \* n * kappa * u with kappa = max(kappa_a, kappa_b)
        CovE(den, minN) ==
            IF n < minN THEN Nan
            ELSE IF n = 1 THEN Exactly(QZero)
            ELSE IF A.const \/ B.const THEN Skip
            ELSE IF ~dom \/ illAB THEN Skip
            ELSE LET v == QDivI(co, den)
                     \* sqrt(Sxx Syy) / den  with Sxx = n var_a
                     scale == QDivI(QMul(QMulI(A.sHi, n), B.sHi), den) IN
                 Env(Pt(v), QAdd(QMul(QMulI(kAB, 16), scale), U4(v)))
        \* weighted
        W == s.sb
        W2 == s.sbb
        relE(v, C) == IF QIsZero(v) THEN Exactly(QZero)
                      ELSE IF ~dom THEN Skip
                      ELSE Env(Pt(v), QMul(QMulI(U, C * n + 4), QAbs(v)))
        vowm == QMul(svarA, QDiv(W2, QMul(W, W)))
        VowmTol(v) == QAdd(QMul(QAdd(CnKU(16, n, A), QMulI(U, 16 * n)), v), U4(v))
    IN
    CASE a = "mean_x" -> MeanE(A)
      [] a = "mean_y" -> MeanE(B)
      [] a = "pvar_x" -> VarE(A, A.var, 1)
      [] a = "pvar_y" -> VarE(B, B.var, 1)
      [] a = "svar_x" -> VarE(A, svarA, 2)
      [] a = "svar_y" -> VarE(B, svarB, 2)
      [] a = "pcov" -> CovE(n, 1)
      [] a = "scov" -> CovE(n - 1, 2)
      [] a = "pearson" ->
            IF n < 2 THEN Nan
            ELSE IF A.const \/ B.const THEN Skip
            ELSE IF ~dom \/ illAB THEN Skip
            ELSE LET iv == RootIv(QSign(co), QDiv(QMul(co, co), QMul(QMulI(A.var, n), QMulI(B.var, n)))) IN
                 Env(iv, QAdd(QMulI(kAB, 32), QMul(QMulI(U, 4), IvAbsHi(iv))))
      \* ---- weighted
      [] a = "sw" -> relE(W, 8)
      [] a = "sw2" -> relE(W2, 8)
      [] a = "wmean" ->
            IF QIsZero(W) THEN Nan
            ELSE IF A.const /\ add THEN Exactly(A.mu)
            ELSE IF ~dom THEN Skip
            ELSE LET v == QDiv(s.sab, W) IN
                 Env(Pt(v), QAdd(QMul(QMulI(U, 8 * n), s.cmax), U4(v)))
      [] a = "umean" -> MeanE(A)
      [] a = "efflen" ->
            IF n = 0 THEN Exactly(QZero)
            ELSE IF QIsZero(W2) THEN Nan
            ELSE relE(QDiv(QMul(W, W), W2), 24)
      [] a = "pvar" -> VarE(A, A.var, 1)
      [] a = "svar" -> VarE(A, svarA, 2)
      [] a = "vowm" ->
            IF QIsZero(W) \/ n < 2 THEN Nan
            ELSE IF A.const THEN (IF add THEN Exactly(QZero) ELSE Skip)
            ELSE IF ~dom \/ A.ill THEN Skip
            ELSE Env(Pt(vowm), VowmTol(vowm))
      [] a = "err" ->
            IF QIsZero(W) \/ n < 2 THEN Nan
            ELSE IF A.const THEN (IF add THEN Exactly(QZero) ELSE Skip)
            ELSE IF ~dom \/ A.ill THEN Skip
            ELSE LET iv == RootIv(1, vowm) IN Env(iv, VowmTol(IvAbsHi(iv)))

\* C17: sign and range, whatever the conditioning
RangeOK(i, o) ==
    LET s == st[i]
        n == s.n
        w == Weighted(ty[i])
        has(a) == a \in DOMAIN o
        nonneg(v) == v.c = "fin" /\ QSign(ValOf(v)) >= 0
        inrange(v, lo, hi, mx) == v.c = "fin" /\ Within(ValOf(v), <<lo, hi>>, QMul(QMulI(U, 8 * n), mx))
        wpos == QSign(s.sb) > 0 IN
    /\ \A a \in {"pvar_x", "pvar_y", "pvar"} : (n >= 1 /\ has(a)) => nonneg(o[a])
    /\ \A a \in {"svar_x", "svar_y", "svar"} : (n >= 2 /\ has(a)) => nonneg(o[a])
    /\ (n >= 1 /\ has("mean_x")) => inrange(o.mean_x, s.alo, s.ahi, s.amax)
    /\ (n >= 1 /\ has("mean_y")) => inrange(o.mean_y, s.blo, s.bhi, s.bmax)
    /\ (n >= 1 /\ has("umean")) => inrange(o.umean, s.alo, s.ahi, s.amax)
    \* the remaining conditions are stated for non-negative weights
    /\ (w /\ QSign(s.blo) >= 0 /\ wpos) =>
          /\ has("wmean") => inrange(o.wmean, s.clo, s.chi, QMax(QAbs(s.clo), QAbs(s.chi)))
          /\ \A a \in {"vowm", "err"} : (n >= 2 /\ has(a)) => nonneg(o[a])
          /\ has("efflen") =>
                LET rel == QMulI(QDy(B1, -50), n) IN
                /\ o.efflen.c = "fin"
                /\ QLe(QSub(QOne, rel), ValOf(o.efflen))
                /\ QLe(ValOf(o.efflen), QMul(Q(n), QAdd(QOne, rel)))

Chk(ok, what) == IF ok THEN TRUE ELSE PrintT(<<"MISMATCH at event", l, what>>) /\ FALSE

TObs == /\ IsEvent("obs") /\ Ev.id \in DOMAIN st
        /\ Chk("len" \in DOMAIN Ev => Ev.len = st[Ev.id].n, "len")
        /\ \A a \in DOMAIN Ev.st : Chk(Sat(Ev.st[a], Expect(Ev.id, a)), a)
        /\ Chk(RangeOK(Ev.id, Ev.st), "range (C17)")
        /\ UNCHANGED <<ty, st, ao>>

TNext == TRestart \/ TNew \/ TAdd \/ TBatch \/ TMerge \/ TClone \/ TSerde \/ TObs

TSpec == TInit /\ [][TNext]_tvars

Accepted ==
    LET d == TLCGet("stats").diameter IN
    IF d - 1 = Len(Rec) THEN PrintT("TRACE-ACCEPTED " \o ToString(Len(Rec)) \o " envelope=" \o ToString(TLCGet(1))
                                    \o " exact=" \o ToString(TLCGet(2)) \o " sentinel=" \o ToString(TLCGet(3))
                                    \o " outside-quantifier=" \o ToString(TLCGet(4)))
    ELSE PrintT("TRACE-REJECTED first unmatched event " \o ToString(d) \o ": "
                \o (IF d <= Len(Rec) THEN ToJson(Rec[d]) ELSE "none"))
=============================================================================
