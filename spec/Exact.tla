------------------------------ MODULE Exact ------------------------------
(***************************************************************************)
(* Definitional ("textbook") statistics of a finite sequence of integers,  *)
(* in exact rational arithmetic.  These are the reference every estimator  *)
(* specification is checked against; none of them is a recurrence.         *)
(***************************************************************************)
EXTENDS Integers, Sequences, FiniteSets, Rat

RECURSIVE SumSeq(_)
SumSeq(s) == IF s = <<>> THEN 0 ELSE Head(s) + SumSeq(Tail(s))

RECURSIVE RSumSeq(_)
RSumSeq(s) == IF s = <<>> THEN Zero ELSE RAdd(Head(s), RSumSeq(Tail(s)))

MapSeq(f(_), s) == [i \in 1..Len(s) |-> f(s[i])]

PowerSum(s, k) == SumSeq([i \in 1..Len(s) |-> IPow(s[i], k)])

\* mean as a rational; s non-empty
MeanOf(s) == Norm(SumSeq(s), Len(s))

\* p-th central sum  sum_i (x_i - mean)^p  =  sum_i (n x_i - S1)^p / n^p
CentralSum(s, p) ==
    IF s = <<>> THEN Zero ELSE
    LET n  == Len(s)
        s1 == SumSeq(s)
    IN  RSumSeq([i \in 1..n |-> RPow(Norm(n * s[i] - s1, n), p)])

\* p-th absolute central sum  sum_i |x_i - mean|^p
AbsCentralSum(s, p) ==
    IF s = <<>> THEN Zero ELSE
    LET n  == Len(s)
        s1 == SumSeq(s)
    IN  RSumSeq([i \in 1..n |-> RPow(Norm(IAbs(n * s[i] - s1), n), p)])

\* co-moment  sum_i (x_i - mean_x)(y_i - mean_y)
CoSum(xs, ys) ==
    IF xs = <<>> THEN Zero ELSE
    LET n  == Len(xs)
        sx == SumSeq(xs)
        sy == SumSeq(ys)
    IN  RSumSeq([i \in 1..n |-> RMul(Norm(n * xs[i] - sx, n), Norm(n * ys[i] - sy, n))])

MinOf(s) == CHOOSE m \in {s[i] : i \in 1..Len(s)} : \A j \in 1..Len(s) : m <= s[j]
MaxOf(s) == CHOOSE m \in {s[i] : i \in 1..Len(s)} : \A j \in 1..Len(s) : m >= s[j]

IsConstant(s) == \A i, j \in 1..Len(s) : s[i] = s[j]

\* insertion sort (ascending) -- named so as not to clash with TLC!SortSeq
RECURSIVE InsertSorted(_, _)
InsertSorted(x, s) ==
    IF s = <<>> THEN <<x>>
    ELSE IF x <= Head(s) THEN <<x>> \o s
    ELSE <<Head(s)>> \o InsertSorted(x, Tail(s))

RECURSIVE Sorted(_)
Sorted(s) == IF s = <<>> THEN <<>> ELSE InsertSorted(Head(s), Sorted(Tail(s)))

IsSorted(s) == \A i \in 1..(Len(s) - 1) : s[i] <= s[i + 1]

\* number of elements of s equal to x, <= x, < x
CountEq(s, x) == Cardinality({i \in 1..Len(s) : s[i] = x})
CountLe(s, x) == Cardinality({i \in 1..Len(s) : s[i] <= x})
CountLt(s, x) == Cardinality({i \in 1..Len(s) : s[i] < x})

\* two sequences hold the same multiset
SameBag(s, t) == Sorted(s) = Sorted(t)
=============================================================================
