SPECIFICATION TSpec
CONSTANTS
  LEN = 3
  Slots = {1, 2}
INVARIANTS EdgesSorted FindIsDef BinsAreCounts
POSTCONDITION Accepted
CHECK_DEADLOCK FALSE
