------------------------------- MODULE Rayon -------------------------------
(***************************************************************************)
(* impl_from_par_iterator!  (src/macros.rs):                               *)
(*     par_iter.fold(|| T::new(), |e, i| { e.add(i); e })                  *)
(*             .reduce(|| T::new(), |a, b| { a.merge(&b); a })             *)
(*                                                                         *)
(* Two levels.                                                             *)
(*  Object level (what a trace of the real code shows): estimator objects  *)
(*    are created (PNew), absorb input items (PAdd) and are merged         *)
(*    (PMerge, which consumes the source).  `data[o]` is the ghost         *)
(*    sequence of input *indices* object o has absorbed.                   *)
(*  Schedule level (what rayon does): the input range [0, N) is split      *)
(*    recursively into jobs; a leaf job folds its items into a fresh       *)
(*    accumulator and merges that accumulator into a fresh reduce identity *)
(*    (this is the shape the real macro produces: every leaf costs one     *)
(*    merge into an EMPTY estimator); completed adjacent results are       *)
(*    joined left.merge(right).  Each schedule-level action is a           *)
(*    composition of object-level actions.                                 *)
(* The property (C19): whatever the split tree and the order of joins, the *)
(* returned object has absorbed exactly the indices 0..N-1, in order --    *)
(* so by C02 / C11 its statistics are those of the sequential collect.     *)
(***************************************************************************)
EXTENDS Integers, Sequences, FiniteSets

CONSTANTS N,        \* number of input items
          Ids       \* object identifiers available

VARIABLES live, data, added,     \* object level, see RayonObj
          jobs,     \* schedule level: ranges <<lo, hi>> not yet folded
          done,     \* schedule level: completed results [lo, hi, id]
          returned  \* the object handed back by collect(), or 0

vars == <<live, data, added, jobs, done, returned>>

INSTANCE RayonObj

(***************************************************************************)
(* Schedule level                                                          *)
(***************************************************************************)
Init == /\ live = {} /\ data = [o \in {} |-> <<>>] /\ added = {}
        /\ jobs = {<<0, N>>} /\ done = {} /\ returned = 0

Split(j, mid) ==
    /\ j \in jobs /\ j[1] < mid /\ mid < j[2]
    /\ jobs' = (jobs \ {j}) \cup {<<j[1], mid>>, <<mid, j[2]>>}
    /\ UNCHANGED <<live, data, added, done, returned>>

\* PNew(r) . PNew(f) . PAdd(f, lo) ... PAdd(f, hi-1) . PMerge(r, f)
Leaf(j, r, f) ==
    /\ j \in jobs /\ r \in Ids \ live /\ f \in Ids \ live /\ r # f
    /\ \A i \in j[1]..(j[2] - 1) : i \notin added
    /\ jobs' = jobs \ {j}
    /\ live' = live \cup {r}
    /\ data' = [x \in live' |-> IF x = r THEN [k \in 1..(j[2] - j[1]) |-> j[1] + k - 1] ELSE data[x]]
    /\ added' = added \cup (j[1]..(j[2] - 1))
    /\ done' = done \cup {[lo |-> j[1], hi |-> j[2], id |-> r]}
    /\ UNCHANGED returned

\* reduce_op(a, b) = { a.merge(&b); a } on two adjacent completed results
Join(a, b) ==
    /\ a \in done /\ b \in done /\ a.hi = b.lo
    /\ PMerge(a.id, b.id)
    /\ done' = (done \ {a, b}) \cup {[lo |-> a.lo, hi |-> b.hi, id |-> a.id]}
    /\ UNCHANGED <<jobs, returned>>

Return ==
    /\ jobs = {} /\ returned = 0
    /\ \E a \in done : a.lo = 0 /\ a.hi = N /\ returned' = a.id
    /\ UNCHANGED <<live, data, added, jobs, done>>

Next == \/ \E j \in jobs, mid \in 0..N : Split(j, mid)
        \/ \E j \in jobs, r, f \in Ids : Leaf(j, r, f)
        \/ \E a, b \in done : Join(a, b)
        \/ Return

Spec == Init /\ [][Next]_vars /\ WF_vars(Next)

(***************************************************************************)
(* Properties                                                              *)
(***************************************************************************)
DoneMatches == \A a \in done : a.id \in live /\ data[a.id] = Range(a.lo, a.hi)

\* C19: the returned estimator has absorbed the whole input, in order, exactly once
ReturnedIsSequential == returned # 0 => /\ data[returned] = Range(0, N)
                                        /\ added = 0..(N - 1)
\* every schedule terminates with a returned object
Terminates == <>(returned # 0)
=============================================================================
