-------------------------------- MODULE BigQ -------------------------------
(***************************************************************************)
(* Exact rationals over the unbounded integers of Big.tla.                 *)
(*                                                                         *)
(* A rational is <<num, den>> with den > 0 and gcd(|num|, den) = 1; zero   *)
(* is <<0, 1>>.  Canonical, so equality is structural.  It is Rat.tla      *)
(* without the 32-bit ceiling: the statistics of streams of arbitrary f64  *)
(* values (each one a dyadic rational m * 2^e with |m| < 2^53,             *)
(* -1074 <= e <= 971) are computed exactly.                                *)
(*                                                                         *)
(* Square roots are irrational; QSqrtLo / QSqrtHi bracket them by          *)
(* rationals to a relative 2^-64.                                          *)
(***************************************************************************)
EXTENDS Big

B1 == BInt(1)
QZero == <<BZero, B1>>
QOne  == <<B1, B1>>

\* exact quotient of a signed a by a positive g that divides it
BExactDiv(a, g) == IF a[1] = 0 THEN BZero
                   ELSE LET q == BDiv(BAbs(a), g) IN <<a[1], q[2]>>

QNorm(n, d) ==        \* d # 0
    IF n[1] = 0 THEN QZero
    ELSE LET g  == BGcd(BAbs(n), BAbs(d))
             nn == IF d[1] < 0 THEN BNeg(n) ELSE n
         IN  <<BExactDiv(nn, g), BExactDiv(BAbs(d), g)>>

IsQ(q) == IsBig(q[1]) /\ IsBig(q[2]) /\ q[2][1] = 1 /\ BGcd(BAbs(q[1]), q[2]) = B1

Q(i) == <<BInt(i), B1>>
QFrac(i, j) == QNorm(BInt(i), BInt(j))
\* the dyadic rational m * 2^e (m a big integer, e a TLC integer): every finite f64 is one
QDy(m, e) == IF e >= 0 THEN <<BMul(m, BPow2(e)), B1>> ELSE QNorm(m, BPow2(-e))

QNeg(a) == <<BNeg(a[1]), a[2]>>
QAbs(a) == <<BAbs(a[1]), a[2]>>
QSign(a) == a[1][1]
QIsZero(a) == a[1][1] = 0

QAdd(a, b) == IF a[1][1] = 0 THEN b ELSE IF b[1][1] = 0 THEN a
              ELSE QNorm(BAdd(BMul(a[1], b[2]), BMul(b[1], a[2])), BMul(a[2], b[2]))
QSub(a, b) == QAdd(a, QNeg(b))
QMul(a, b) == IF a[1][1] = 0 \/ b[1][1] = 0 THEN QZero
              ELSE QNorm(BMul(a[1], b[1]), BMul(a[2], b[2]))
QInv(a) == IF a[1][1] < 0 THEN <<BNeg(a[2]), BAbs(a[1])>> ELSE <<a[2], a[1]>>     \* a # 0
QDiv(a, b) == QMul(a, QInv(b))
QMulI(a, i) == QMul(a, Q(i))
QDivI(a, i) == QMul(a, QFrac(1, i))

RECURSIVE QPow(_, _)
QPow(a, k) == IF k = 0 THEN QOne ELSE QMul(a, QPow(a, k - 1))

QCmp(a, b) == BCmp(BMul(a[1], b[2]), BMul(b[1], a[2]))
QLe(a, b) == QCmp(a, b) <= 0
QLt(a, b) == QCmp(a, b) < 0
QMax(a, b) == IF QLe(a, b) THEN b ELSE a
QMin(a, b) == IF QLe(a, b) THEN a ELSE b

(***************************************************************************)
(* sqrt(n/d) = sqrt(n*d) / d = sqrt(n*d*2^128) / (d*2^64); since n*d >= 1   *)
(* for a positive rational, the integer root is >= 2^64 and flooring it    *)
(* loses less than a relative 2^-64.                                       *)
(***************************************************************************)
QSqrtLo(a) == IF a[1][1] = 0 THEN QZero
              ELSE QNorm(BSqrt(BMul(BMul(a[1], a[2]), BPow2(128))), BMul(a[2], BPow2(64)))
QSqrtHi(a) == IF a[1][1] = 0 THEN QZero
              ELSE QNorm(BAdd(BSqrt(BMul(BMul(a[1], a[2]), BPow2(128))), B1), BMul(a[2], BPow2(64)))
=============================================================================
