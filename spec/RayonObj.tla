------------------------------ MODULE RayonObj ------------------------------
(***************************************************************************)
(* Object level of parallel collection (see Rayon.tla): estimator objects  *)
(* are created (PNew), absorb input items in order (PAdd) and are merged   *)
(* (PMerge, which consumes the source).  data[o] is the ghost sequence of  *)
(* input indices object o has absorbed.  No constants: the trace           *)
(* specification instantiates this module with the input length of each    *)
(* recorded run.                                                           *)
(***************************************************************************)
EXTENDS Integers, Sequences, FiniteSets

VARIABLES live,     \* objects that exist
          data,     \* [live -> Seq(Nat)]
          added     \* indices absorbed by some object so far

Last(s) == s[Len(s)]
Range(lo, hi) == [k \in 1..(hi - lo) |-> lo + k - 1]

PNew(o) ==
    /\ o \notin live
    /\ live' = live \cup {o}
    /\ data' = [x \in live' |-> IF x = o THEN <<>> ELSE data[x]]
    /\ UNCHANGED added

\* items reach an accumulator in input order, each exactly once (nn = input length)
PAdd(o, i, nn) ==
    /\ o \in live /\ i \in 0..(nn - 1) /\ i \notin added
    /\ IF data[o] = <<>> THEN TRUE ELSE Last(data[o]) + 1 = i
    /\ data' = [data EXCEPT ![o] = Append(@, i)]
    /\ added' = added \cup {i}
    /\ UNCHANGED live

\* dst.merge(&src); src is dropped.  Only adjacent ranges in input order, or an empty side
PMerge(dst, src) ==
    /\ dst \in live /\ src \in live /\ dst # src
    /\ IF data[dst] = <<>> \/ data[src] = <<>> THEN TRUE ELSE Last(data[dst]) + 1 = Head(data[src])
    /\ live' = live \ {src}
    /\ data' = [x \in live' |-> IF x = dst THEN data[dst] \o data[src] ELSE data[x]]
    /\ UNCHANGED added

\* every live object holds a contiguous, ordered range; ranges of distinct objects are disjoint
Contiguous == \A o \in live : IF data[o] = <<>> THEN TRUE ELSE data[o] = Range(Head(data[o]), Last(data[o]) + 1)
Disjoint == \A o1, o2 \in live : o1 # o2 =>
               {data[o1][k] : k \in 1..Len(data[o1])} \cap {data[o2][k] : k \in 1..Len(data[o2])} = {}
=============================================================================
