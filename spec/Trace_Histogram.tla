--------------------------- MODULE Trace_Histogram ---------------------------
(***************************************************************************)
(* Trace specification for histograms: validates traces recorded from the  *)
(* real code -- long random histories of from_ranges / add / merge / += /  *)
(* *= / reset / clone on define_histogram! types of any LEN (10 and 100    *)
(* included) -- against the actions of Histogram.tla.  Everything logged   *)
(* is an integer, a token or a boolean; TLC decides every step.            *)
(***************************************************************************)
EXTENDS Histogram, TLC, Json, IOUtils

Rec == ndJsonDeserialize(IOEnv.TRACE)

VARIABLE l

tvars == <<hist, ghost, last, l>>

TInit == Init /\ l = 1

Ev == Rec[l]
IsEvent(name) == l <= Len(Rec) /\ Ev.op = name /\ l' = l + 1

\* JSON arrays arrive as sequences (1-based); an empty array as an empty sequence
TBuild == /\ IsEvent("build")
          /\ Build(Ev.slot, Ev.list)
          /\ last'.res.ok = Ev.ok
          /\ (~Ev.ok) => last'.res.err = Ev.err
          /\ Ev.ok => /\ hist'[Ev.slot].edges = Ev.edges      \* ranges() handed back unchanged
                      /\ hist'[Ev.slot].bins = Ev.bins
TAdd == /\ IsEvent("add")
        /\ AddSample(Ev.slot, Ev.x)
        /\ last'.ok = Ev.ok /\ last'.bin = Ev.bin
        /\ hist'[Ev.slot].bins = Ev.bins
        /\ SumBins(hist'[Ev.slot].bins) = Ev.total
        /\ Ev.views_ok                 \* variance(i) = variances()[i], within [0, total/4]
TMerge == /\ IsEvent("merge") /\ Merge(Ev.dst, Ev.src)
          /\ last'.panic = Ev.panic /\ hist'[Ev.dst].bins = Ev.bins /\ hist'[Ev.src].bins = Ev.srcbins
          /\ Ev.views_ok               \* also after a panicking merge
TAddAssign == /\ IsEvent("addassign") /\ AddAssign(Ev.dst, Ev.src)
              /\ last'.panic = Ev.panic /\ hist'[Ev.dst].bins = Ev.bins /\ hist'[Ev.src].bins = Ev.srcbins
              /\ Ev.views_ok
TMul == IsEvent("mul") /\ MulAssign(Ev.slot, Ev.k) /\ hist'[Ev.slot].bins = Ev.bins
TReset == IsEvent("reset") /\ Reset(Ev.slot) /\ hist'[Ev.slot].bins = Ev.bins
TClone == IsEvent("clone") /\ Clone(Ev.dst, Ev.src) /\ hist'[Ev.dst].bins = Ev.bins
\* a fresh pair of histograms (new run in the same trace file)
TRestart == IsEvent("restart") /\ hist' = [s \in Slots |-> NoHist] /\ ghost' = [s \in Slots |-> ZeroGhost]
            /\ last' = [op |-> "init"]

TNext == TBuild \/ TAdd \/ TMerge \/ TAddAssign \/ TMul \/ TReset \/ TClone \/ TRestart

TSpec == TInit /\ [][TNext]_tvars

Accepted ==
    LET d == TLCGet("stats").diameter IN
    IF d - 1 = Len(Rec) THEN PrintT("TRACE-ACCEPTED " \o ToString(Len(Rec)))
    ELSE PrintT("TRACE-REJECTED first unmatched event " \o ToString(d) \o ": "
                \o (IF d <= Len(Rec) THEN ToJson(Rec[d]) ELSE "none"))
=============================================================================
