----------------------------- MODULE Ind_EffLen -----------------------------
(***************************************************************************)
(* Unbounded algebraic layer (Apalache) for effective_len of               *)
(* WeightedMeanWithError (C17): with non-negative weights,                 *)
(*      effective_len = (sum w)^2 / sum w^2  <=  len,                      *)
(* i.e.  w * w <= n * v  for  w = sum of weights, v = sum of squared       *)
(* weights, n = number of observations -- as an inductive invariant of add *)
(* and merge over unbounded integers (Cauchy-Schwarz, which the solver has *)
(* to find: the induction step needs 2 w t <= v + n t^2).                  *)
(*   apalache-mc check --init=IndInit --inv=IndInv --length=1 Ind_EffLen.tla *)
(***************************************************************************)
EXTENDS Integers

VARIABLES
    \* @type: Int;
    na,
    \* @type: Int;
    wa,
    \* @type: Int;
    va,
    \* @type: Int;
    nb,
    \* @type: Int;
    wb,
    \* @type: Int;
    vb

Def(n, w, v) == n >= 0 /\ w >= 0 /\ v >= 0 /\ w * w <= n * v

IndInv == Def(na, wa, va) /\ Def(nb, wb, vb)

IndInit == /\ na \in Int /\ wa \in Int /\ va \in Int /\ nb \in Int /\ wb \in Int /\ vb \in Int
           /\ IndInv

Init == na = 0 /\ wa = 0 /\ va = 0 /\ nb = 0 /\ wb = 0 /\ vb = 0

AddA == \E t \in Int : t >= 0 /\ na' = na + 1 /\ wa' = wa + t /\ va' = va + t * t /\ UNCHANGED <<nb, wb, vb>>
AddB == \E t \in Int : t >= 0 /\ nb' = nb + 1 /\ wb' = wb + t /\ vb' = vb + t * t /\ UNCHANGED <<na, wa, va>>
MergeAB == na' = na + nb /\ wa' = wa + wb /\ va' = va + vb /\ UNCHANGED <<nb, wb, vb>>

Next == AddA \/ AddB \/ MergeAB \/ UNCHANGED <<na, wa, va, nb, wb, vb>>
=============================================================================
