----------------------------- MODULE Quantile -----------------------------
(***************************************************************************)
(* Quantile  (src/quantile.rs): the P-square algorithm of Jain & Chlamtac  *)
(* (CACM 1985) with five markers, plus the exact small-sample path used    *)
(* while fewer than five observations are in.                              *)
(*                                                                         *)
(* State of one estimator (one per behaviour; the type has no merge):      *)
(*    p     the quantile requested (a rational in [0,1])                   *)
(*    cnt   number of observations (the code keeps it in n[4])             *)
(*    q     marker heights      <<q1..q5>>   exact rationals               *)
(*    pos   marker positions    <<n1..n5>>   integers                      *)
(*    des   desired positions   <<m1..m5>>   rationals                     *)
(* and the ghost sequence `data` of all observations.                      *)
(*                                                                         *)
(* While cnt < 5 the first cnt entries of q hold the observations in       *)
(* arrival order (the fifth insertion sorts them).  From then on Add is    *)
(* the paper's three boxes:                                                *)
(*   B1 Cell:   find the cell k of x, adjusting the extreme markers;       *)
(*   B2 Shift:  increment the positions of markers k+1..5 and all desired  *)
(*              positions by their increments dn';                         *)
(*   B3 Adjust: for i = 2,3,4 in order, move marker i by one position      *)
(*              towards its desired position if it is off by at least one *)
(*              and the neighbour is more than one position away, using    *)
(*              the parabolic formula if its result lies strictly between  *)
(*              the neighbouring heights and the linear formula otherwise. *)
(***************************************************************************)
EXTENDS Integers, Sequences, FiniteSets, Rat, Exact

CONSTANTS Alphabet,     \* integer observations
          PSet          \* set of rationals p to run with

VARIABLES p, cnt, q, pos, des, data

vars == <<p, cnt, q, pos, des, data>>

Five == 1..5

\* desired-position increments dn' = <<0, p/2, p, (1+p)/2, 1>>
Dm(pp) == <<Zero, RDivI(pp, 2), pp, RDivI(RAdd(One, pp), 2), One>>
\* initial desired positions <<1, 1+2p, 1+4p, 3+2p, 5>>
Des0(pp) == <<One, RAdd(One, RMulI(pp, 2)), RAdd(One, RMulI(pp, 4)), RAdd(R(3), RMulI(pp, 2)), R(5)>>

Init == /\ p \in PSet
        /\ cnt = 0
        /\ q = [i \in Five |-> Zero]
        /\ pos = <<1, 2, 3, 4, 5>>
        /\ des = Des0(p)
        /\ data = <<>>

(***************************************************************************)
(* Small phase                                                             *)
(***************************************************************************)
\* sort a sequence of rationals ascending (insertion sort)
RECURSIVE RInsert(_, _)
RInsert(x, s) == IF s = <<>> THEN <<x>>
                 ELSE IF RLe(x, Head(s)) THEN <<x>> \o s
                 ELSE <<Head(s)>> \o RInsert(x, Tail(s))
RECURSIVE RSort(_)
RSort(s) == IF s = <<>> THEN <<>> ELSE RInsert(Head(s), RSort(Tail(s)))

AddSmall(x) ==
    /\ cnt < 5
    /\ LET q1 == [q EXCEPT ![cnt + 1] = R(x)] IN
         q' = IF cnt + 1 = 5 THEN RSort(q1) ELSE q1
    /\ cnt' = cnt + 1
    /\ data' = Append(data, x)
    /\ UNCHANGED <<p, pos, des>>

(***************************************************************************)
(* P-square step                                                           *)
(***************************************************************************)
\* B1: first marker whose position is incremented (k + 1 in the paper's numbering) and the
\* heights after the extreme markers have absorbed a new minimum / maximum
FirstShift(h, x) ==
    IF RLt(x, h[1]) THEN 2
    ELSE IF RLt(x, h[2]) THEN 2
    ELSE IF RLt(x, h[3]) THEN 3
    ELSE IF RLt(x, h[4]) THEN 4
    ELSE 5
Extremes(h, x) ==
    IF RLt(x, h[1]) THEN [h EXCEPT ![1] = x]
    ELSE IF RLt(h[5], x) THEN [h EXCEPT ![5] = x]
    ELSE h

Parabolic(h, n, i, s) ==
    RAdd(h[i],
         RMul(Norm(s, n[i + 1] - n[i - 1]),
              RAdd(RDivI(RMulI(RSub(h[i + 1], h[i]), n[i] - n[i - 1] + s), n[i + 1] - n[i]),
                   RDivI(RMulI(RSub(h[i], h[i - 1]), n[i + 1] - n[i] - s), n[i] - n[i - 1]))))

Linear(h, n, i, s) ==
    RAdd(h[i], RDivI(RMulI(RSub(h[i + s], h[i]), s), n[i + s] - n[i]))

\* does marker i have to move, and in which direction (0 = stay)
MoveDir(n, m, i) ==
    LET d == RSub(m[i], R(n[i])) IN
    IF RGe(d, One) /\ n[i + 1] - n[i] > 1 THEN 1
    ELSE IF RLe(d, R(-1)) /\ n[i - 1] - n[i] < -1 THEN -1
    ELSE 0

\* B3 for one marker: new <<heights, positions>>
AdjustOne(hn, m, i) ==
    LET h == hn[1] n == hn[2] s == MoveDir(n, m, i) IN
    IF s = 0 THEN hn
    ELSE LET qn == Parabolic(h, n, i, s)
             hv == IF RLt(h[i - 1], qn) /\ RLt(qn, h[i + 1]) THEN qn ELSE Linear(h, n, i, s)
         IN  <<[h EXCEPT ![i] = hv], [n EXCEPT ![i] = n[i] + s]>>

Step(h, n, m, x) ==
    LET rx == R(x)
        k1 == FirstShift(h, rx)
        h1 == Extremes(h, rx)
        n1 == [i \in Five |-> IF i >= k1 THEN n[i] + 1 ELSE n[i]]
        m1 == [i \in Five |-> RAdd(m[i], Dm(p)[i])]
        a2 == AdjustOne(<<h1, n1>>, m1, 2)
        a3 == AdjustOne(a2, m1, 3)
        a4 == AdjustOne(a3, m1, 4)
    IN  [h |-> a4[1], n |-> a4[2], m |-> m1]

\* The positions after a step depend only on the cell and on the desired positions, never on
\* the heights: this is the integer "skeleton" of P-square that trace validation checks on
\* arbitrarily long runs of the real code.
PosStep(n, m1, k1) ==
    LET n1 == [i \in Five |-> IF i >= k1 THEN n[i] + 1 ELSE n[i]]
        s2 == MoveDir(n1, m1, 2)
        n2 == [n1 EXCEPT ![2] = n1[2] + s2]
        s3 == MoveDir(n2, m1, 3)
        n3 == [n2 EXCEPT ![3] = n2[3] + s3]
        s4 == MoveDir(n3, m1, 4)
    IN  [n3 EXCEPT ![4] = n3[4] + s4]

AddBig(x) ==
    /\ cnt >= 5
    /\ LET r == Step(q, pos, des, x) IN
         /\ q' = r.h /\ pos' = r.n /\ des' = r.m
    /\ cnt' = cnt + 1
    /\ data' = Append(data, x)
    /\ UNCHANGED p

Add(x) == AddSmall(x) \/ AddBig(x)

\* serde round trip
Checkpoint == UNCHANGED vars

Next == (\E x \in Alphabet : Add(x)) \/ Checkpoint

Spec == Init /\ [][Next]_vars

(***************************************************************************)
(* Accessors                                                               *)
(***************************************************************************)
NaN    == [k |-> "nan"]
Val(r) == [k |-> "rat", v |-> r]

LenOf   == cnt
IsEmpty == cnt = 0
POf     == p

\* the exact sample quantile of a sorted non-empty sequence h of rationals: the smallest
\* observation whose cumulative relative frequency reaches pp, averaged with the next one
\* when n*pp is a whole number  (the property's definition, C07)
QuantileDef(h, pp) ==
    LET n  == Len(h)
        np == RMulI(pp, n)
        j  == RCeil(np)
    IN  IF RIsZero(np) THEN h[1]
        ELSE IF RIsInt(np) /\ j < n THEN RDivI(RAdd(h[j], h[j + 1]), 2)
        ELSE h[j]

\* the code's shape: ceil(n*p - 1) on 0-based indices, midpoint when integral, clamping
QuantileCodeShape(h, pp) ==
    LET n       == Len(h)
        desired == RSub(RMulI(pp, n), One)
        index   == RCeil(desired)
        at(i)   == h[i + 1]                      \* 0-based indexing
        clamp   == IF index < 0 THEN 0 ELSE IF index > n - 1 THEN n - 1 ELSE index
    IN  IF RIsInt(desired) /\ index >= 0 /\ index < n - 1
        THEN RAdd(RDivI(at(index), 2), RDivI(at(index + 1), 2))
        ELSE at(clamp)

SmallSorted == RSort(SubSeq(q, 1, cnt))

QuantileOf ==
    IF cnt = 0 THEN NaN
    ELSE IF cnt >= 5 THEN Val(q[3])
    ELSE Val(QuantileDef(SmallSorted, p))

(***************************************************************************)
(* Invariants                                                              *)
(***************************************************************************)
TypeOK == /\ cnt \in Nat /\ cnt = Len(data)
          /\ \A i \in Five : IsRat(q[i]) /\ pos[i] \in Nat /\ IsRat(des[i])
          /\ IsRat(p)

\* C07: below five observations the two formulations agree for every p of interest and the
\* result depends only on the multiset (it is computed from the sorted prefix)
SmallPathDefs ==
    (cnt >= 1 /\ cnt < 5) =>
        /\ \A pp \in PSet : QuantileCodeShape(SmallSorted, pp) = QuantileDef(SmallSorted, pp)
        /\ SmallSorted = [i \in 1..cnt |-> R(Sorted(data)[i])]
        /\ QuantileDef(SmallSorted, Zero) = R(MinOf(data))
        /\ QuantileDef(SmallSorted, One) = R(MaxOf(data))

\* C05 / C15: marker bookkeeping once five observations are in
MarkersWellFormed ==
    cnt >= 5 =>
        /\ pos[1] = 1 /\ pos[5] = cnt
        /\ \A i \in 1..4 : pos[i] < pos[i + 1]
        /\ \A i \in 1..4 : RLe(q[i], q[i + 1])
        /\ q[1] = R(MinOf(data)) /\ q[5] = R(MaxOf(data))
        /\ des[1] = One /\ des[5] = R(cnt)
        /\ des[3] = RAdd(One, RMulI(p, cnt - 1))

\* C15: the estimate lies within the data range, NaN only when empty
InRange ==
    /\ cnt = 0 => QuantileOf = NaN
    /\ cnt > 0 => /\ QuantileOf.k = "rat"
                  /\ RLe(R(MinOf(data)), QuantileOf.v)
                  /\ RLe(QuantileOf.v, R(MaxOf(data)))

\* C05: interior markers move by at most one position per observation beyond the cell shift
OneStepMoves ==
    [][cnt >= 5 /\ cnt' = cnt + 1 =>
          LET k1 == FirstShift(q, R(data'[cnt'])) IN
          \A i \in Five :
              LET shifted == IF i >= k1 THEN pos[i] + 1 ELSE pos[i] IN
              /\ pos'[i] - shifted \in {-1, 0, 1}
              /\ (i \in {1, 5}) => pos'[i] = shifted]_vars

\* the position skeleton is exactly the position component of the full step
SkeletonIsStep ==
    [][cnt >= 5 /\ cnt' = cnt + 1 =>
          pos' = PosStep(pos, des', FirstShift(q, R(data'[cnt'])))]_vars
=============================================================================
