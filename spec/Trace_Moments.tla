--------------------------- MODULE Trace_Moments ---------------------------
(***************************************************************************)
(* Trace specification for the moment family (Mean, Variance, Skewness,    *)
(* Kurtosis, define_moments! types): C01 C02 C03 C04 C10 C16 C17.          *)
(*                                                                         *)
(* Validates histories recorded from the real estimators fed ARBITRARY f64 *)
(* values (full 53-bit mantissas, any exponent) - what the exhaustive      *)
(* replays, which need lattice data, cannot reach.  Every observation is   *)
(* logged as the exact dyadic rational it is (mantissa as a Big.tla        *)
(* integer, binary exponent); the abstract state of an object is the size  *)
(* and the exact power sums of the multiset it stands for (additive under  *)
(* merge), in the unbounded arithmetic of BigQ.tla; at every "obs" event   *)
(* TLC evaluates the textbook statistics exactly (BigStats.tla, checked    *)
(* against Exact.tla by MC_Big.tla) and requires every value the real      *)
(* object reported - again as exact dyadic rationals - to satisfy the      *)
(* envelope of DESIGN.md section 5 as an exact rational inequality, the    *)
(* sentinel table of Moments.tla, and the sign / range conditions of C17.  *)
(* No floating-point arithmetic takes part in the verdict.                 *)
(*                                                                         *)
(*   {"op":"new","id":i,"ord":o}             T::new(), T of order o        *)
(*   {"op":"add","id":i,"m":[s,[limbs]],"e":e}        add(m * 2^e)         *)
(*   {"op":"batch","id":i,"fresh":b,"ord":o,"xs":[{"m","e"}..]}  collect/extend*)
(*   {"op":"par","dst":i,"src":j}     parallel collect of the data of j    *)
(*   {"op":"merge","dst":i,"src":j}  {"op":"clone","dst":i,"src":j}        *)
(*   {"op":"serde","id":i}                   JSON round trip (stutters)    *)
(*   {"op":"obs","id":i,"len":n,"st":{acc: V, .., "cm":[V..], "sm":[V..]}} *)
(*        V = {"c":"fin","m":..,"e":..} | {"c":"nan"|"pinf"|"ninf"|"panic"}*)
(*   {"op":"restart","K":k}    forget all objects; power sums to order k   *)
(***************************************************************************)
EXTENDS BigStats, TLC, Json, IOUtils

Rec == ndJsonDeserialize(IOEnv.TRACE)

VARIABLES l,        \* next event
          K,        \* order to which power sums are carried (set by "restart")
          cnt,      \* id -> number of observations the object stands for
          ps,       \* id -> [1..K -> power sums]
          xm,       \* id -> max |x|
          dlo, dhi, \* id -> smallest / largest observation
          dom,      \* id -> every observation lies in the domain of the envelope properties
          ord,      \* id -> order of the concrete type
          ao        \* id -> built by adds (and clones of such) only

tvars == <<l, K, cnt, ps, xm, dlo, dhi, dom, ord, ao>>

\* C01's quantifier: |x| in {0} \cup [1e-30, 1e30]
E30 == QPow(Q(10), 30)
InDomain(x) == QIsZero(x) \/ (QLe(QInv(E30), QAbs(x)) /\ QLe(QAbs(x), E30))

Empty == [o \in {} |-> 0]
TInit == TLCSet(1, 0) /\ TLCSet(2, 0) /\ TLCSet(3, 0) /\ TLCSet(4, 0) /\ l = 1 /\ K = 0 /\ cnt = Empty /\ ps = Empty /\ xm = Empty /\ dlo = Empty /\ dhi = Empty /\ dom = Empty /\ ord = Empty /\ ao = Empty

Ev == Rec[l]
IsEvent(name) == l <= Len(Rec) /\ Ev.op = name /\ l' = l + 1
Put(f, o, v) == [x \in DOMAIN f \cup {o} |-> IF x = o THEN v ELSE f[x]]

TNew == /\ IsEvent("new")
        /\ cnt' = Put(cnt, Ev.id, 0) /\ ps' = Put(ps, Ev.id, ZeroSums(K))
        /\ xm' = Put(xm, Ev.id, QZero) /\ dlo' = Put(dlo, Ev.id, QZero) /\ dhi' = Put(dhi, Ev.id, QZero) /\ dom' = Put(dom, Ev.id, TRUE)
        /\ ord' = Put(ord, Ev.id, Ev.ord) /\ ao' = Put(ao, Ev.id, TRUE) /\ UNCHANGED K

TAdd == /\ IsEvent("add") /\ Ev.id \in DOMAIN cnt
        /\ LET i == Ev.id
               x == QDy(Ev.m, Ev.e) IN
           /\ cnt' = Put(cnt, i, cnt[i] + 1)
           /\ ps' = Put(ps, i, AddSums(ps[i], PowersUpTo(x, K)))
           /\ xm' = Put(xm, i, QMax(xm[i], QAbs(x)))
           /\ dlo' = Put(dlo, i, IF cnt[i] = 0 THEN x ELSE QMin(dlo[i], x))
           /\ dhi' = Put(dhi, i, IF cnt[i] = 0 THEN x ELSE QMax(dhi[i], x))
           /\ dom' = Put(dom, i, dom[i] /\ InDomain(x))
        /\ UNCHANGED <<K, ord, ao>>

TMerge == /\ IsEvent("merge") /\ Ev.dst \in DOMAIN cnt /\ Ev.src \in DOMAIN cnt /\ Ev.dst # Ev.src
          /\ LET d == Ev.dst  s == Ev.src IN
             /\ cnt' = Put(cnt, d, cnt[d] + cnt[s])
             /\ ps' = Put(ps, d, AddSums(ps[d], ps[s]))
             /\ xm' = Put(xm, d, QMax(xm[d], xm[s]))
             /\ dlo' = Put(dlo, d, IF cnt[d] = 0 THEN dlo[s] ELSE IF cnt[s] = 0 THEN dlo[d] ELSE QMin(dlo[d], dlo[s]))
             /\ dhi' = Put(dhi, d, IF cnt[d] = 0 THEN dhi[s] ELSE IF cnt[s] = 0 THEN dhi[d] ELSE QMax(dhi[d], dhi[s]))
             /\ dom' = Put(dom, d, dom[d] /\ dom[s])
             \* merging an empty estimator, or into an empty one, is exact (C11): still "add only"
             /\ ao' = Put(ao, d, IF cnt[s] = 0 THEN ao[d] ELSE IF cnt[d] = 0 THEN ao[s] ELSE FALSE)
          /\ UNCHANGED <<K, ord>>

TClone == /\ IsEvent("clone") /\ Ev.src \in DOMAIN cnt
          /\ LET d == Ev.dst  s == Ev.src IN
             /\ cnt' = Put(cnt, d, cnt[s]) /\ ps' = Put(ps, d, ps[s]) /\ xm' = Put(xm, d, xm[s])
             /\ dlo' = Put(dlo, d, dlo[s]) /\ dhi' = Put(dhi, d, dhi[s]) /\ dom' = Put(dom, d, dom[s])
             /\ ord' = Put(ord, d, ord[s]) /\ ao' = Put(ao, d, ao[s])
          /\ UNCHANGED K

\* collect / extend of a sequence (by value or by reference, any iterator shape): the add loop (Ingest.tla)
RECURSIVE FoldAdds(_, _, _)
FoldAdds(st, xs, j) ==
    IF j > Len(xs) THEN st
    ELSE LET x == QDy(xs[j].m, xs[j].e) IN
         FoldAdds([c |-> st.c + 1, s |-> AddSums(st.s, PowersUpTo(x, K)), xm |-> QMax(st.xm, QAbs(x)),
                   lo |-> IF st.c = 0 THEN x ELSE QMin(st.lo, x), hi |-> IF st.c = 0 THEN x ELSE QMax(st.hi, x),
                   dom |-> st.dom /\ InDomain(x)], xs, j + 1)
TBatch == /\ IsEvent("batch") /\ (Ev.fresh \/ Ev.id \in DOMAIN cnt)
          /\ LET i == Ev.id
                 s0 == IF Ev.fresh THEN [c |-> 0, s |-> ZeroSums(K), xm |-> QZero, lo |-> QZero, hi |-> QZero, dom |-> TRUE]
                       ELSE [c |-> cnt[i], s |-> ps[i], xm |-> xm[i], lo |-> dlo[i], hi |-> dhi[i], dom |-> dom[i]]
                 r == FoldAdds(s0, Ev.xs, 1) IN
             /\ cnt' = Put(cnt, i, r.c) /\ ps' = Put(ps, i, r.s) /\ xm' = Put(xm, i, r.xm)
             /\ dlo' = Put(dlo, i, r.lo) /\ dhi' = Put(dhi, i, r.hi) /\ dom' = Put(dom, i, r.dom)
             /\ ord' = Put(ord, i, IF Ev.fresh THEN Ev.ord ELSE ord[i])
             /\ ao' = Put(ao, i, IF Ev.fresh THEN TRUE ELSE ao[i])
          /\ UNCHANGED K

\* dst = the same data as src, collected from a PARALLEL iterator (rayon fold / reduce under some pool and
\* splitting limits: Rayon.tla): the same multiset, built through merges
TPar == /\ IsEvent("par") /\ Ev.src \in DOMAIN cnt
        /\ LET d == Ev.dst  s == Ev.src IN
           /\ cnt' = Put(cnt, d, cnt[s]) /\ ps' = Put(ps, d, ps[s]) /\ xm' = Put(xm, d, xm[s])
           /\ dlo' = Put(dlo, d, dlo[s]) /\ dhi' = Put(dhi, d, dhi[s]) /\ dom' = Put(dom, d, dom[s])
           /\ ord' = Put(ord, d, ord[s]) /\ ao' = Put(ao, d, cnt[s] <= 1)
        /\ UNCHANGED K

TSerde == IsEvent("serde") /\ Ev.id \in DOMAIN cnt /\ UNCHANGED <<K, cnt, ps, xm, dlo, dhi, dom, ord, ao>>

TRestart == /\ IsEvent("restart") /\ K' = Ev.K
            /\ cnt' = Empty /\ ps' = Empty /\ xm' = Empty /\ dlo' = Empty /\ dhi' = Empty /\ dom' = Empty /\ ord' = Empty /\ ao' = Empty

(***************************************************************************)
(* Observations                                                            *)
(***************************************************************************)
Nan == [k |-> "nan"]
Skip == [k |-> "skip"]
PanicOk == [k |-> "panic"]
Exactly(v) == [k |-> "exact", v |-> v]
Env(iv, tol) == [k |-> "env", iv |-> iv, tol |-> tol]

ValOf(v) == QDy(v.m, v.e)

\* does the logged value v satisfy the expectation e ?
\* TLC registers count what was decided how (printed with the verdict; -workers 1)
Bump(r) == TLCSet(r, TLCGet(r) + 1)
Sat(v, e, addonly) ==
    CASE e.k = "skip"  -> Bump(4)
      [] e.k = "nan"   -> Bump(3) /\ v.c = "nan"
      [] e.k = "panic" -> Bump(3) /\ (v.c \in {"panic", "nan", "pinf", "ninf"} \/ ~addonly)
      [] e.k = "exact" -> Bump(2) /\ v.c = "fin" /\ ValOf(v) = e.v
      [] e.k = "env"   -> Bump(1) /\ v.c = "fin" /\ Within(ValOf(v), e.iv, e.tol)

Big2(k) == <<BPow2(k), B1>>
Tiny == QDy(B1, -960)

Expect(i, a, q) ==      \* a: accessor name, q: order for "cm" / "sm"
    LET n   == cnt[i]
        S   == ps[i]
        X   == xm[i]
        add == ao[i]
        mu  == MeanOfSums(n, S)
        m(p) == CentralMomentS(n, S, p)
        m2  == m(2)
        const == QIsZero(m2)
        sLo == QSqrtLo(m2)
        sHi == QSqrtHi(m2)
        \* outside the quantifier of the envelope properties
        illcond == QLt(QMulI(sLo, 1000000000), QDiv(QAdd(sHi, X), <<BInt(1000), B1>>))     \* kappa > 1e12
        overflow == QLe(Big2(996), QMulI(QPow(X, IF ord[i] < 2 THEN 2 ELSE ord[i]), n))
        T(C, scaleHi, sAbsHi) == Tol(C, n, sLo, sHi, X, scaleHi, sAbsHi)
        \* envelope expectation, or skip where the property does not quantify
        E(C, iv, scaleHi) ==
            IF ~dom[i] \/ illcond \/ overflow THEN Skip
            ELSE IF (~QIsZero(IvAbsHi(iv)) /\ QLt(IvAbsHi(iv), Tiny)) \/ (~QIsZero(scaleHi) /\ QLt(scaleHi, Tiny)) THEN Skip
            ELSE Env(iv, T(C, scaleHi, IvAbsHi(iv)))
        ER(C, v) == E(C, Pt(v), QAbs(v))                \* rational value, scale = the value itself
        \* constant data: exact contract for add-only objects (C16), nothing after merges
        Const0 == IF overflow THEN Skip ELSE IF add \/ n = 1 THEN Exactly(QZero) ELSE Skip
        svar == QMul(m2, QFrac(n, n - 1))
        sig3Lo == QMul(QMul(sLo, sLo), sLo)
        stdIv(p) == IF p % 2 = 0 THEN Pt(QDiv(m(p), QPow(m2, p \div 2)))
                    ELSE RootIv(QSign(m(p)), QDiv(QMul(m(p), m(p)), QPow(m2, p)))
    IN
    CASE a = "mean" -> IF n = 0 THEN Nan
                ELSE IF const THEN (IF add \/ n = 1 THEN Exactly(mu) ELSE Skip)
                ELSE E(8, Pt(mu), sHi)
      [] a = "pvar" -> IF n = 0 THEN Nan ELSE IF const THEN Const0 ELSE ER(16, m2)
      [] a = "svar" -> IF n < 2 THEN Nan ELSE IF const THEN Const0 ELSE ER(16, svar)
      [] a = "vmean" -> IF n = 0 THEN Nan ELSE IF n = 1 \/ const THEN Const0 ELSE ER(16, QDivI(svar, n))
      [] a = "err" -> IF n = 0 THEN Nan ELSE IF n = 1 \/ const THEN Const0
                ELSE LET iv == RootIv(1, QDivI(svar, n)) IN E(16, iv, IvAbsHi(iv))
      [] a = "skew" -> IF n = 0 THEN Nan ELSE IF const THEN Const0
                ELSE E(32, stdIv(3), QDiv(AbsMomentHi(n, S, 3), sig3Lo))
      [] a = "kurt" -> IF n = 0 THEN Nan ELSE IF const THEN Const0
                ELSE LET k == QDiv(m(4), QMul(m2, m2)) IN E(32, Pt(QSub(k, Q(3))), k)
      [] a = "cm" -> LET p == q IN
                   IF p = 0 THEN Exactly(QOne) ELSE IF p = 1 THEN Exactly(QZero)
                   ELSE IF n = 0 THEN Nan ELSE IF const THEN Const0
                   ELSE IF p + 1 > K /\ p % 2 = 1 THEN Skip
                   ELSE E(16 * p, Pt(m(p)), AbsMomentHi(n, S, p))
      [] a = "sm" -> LET p == q IN
                   IF p = 0 THEN Exactly(Q(n)) ELSE IF p = 1 THEN Exactly(QZero) ELSE IF p = 2 THEN Exactly(QOne)
                   ELSE IF n = 0 THEN Nan ELSE IF const THEN PanicOk
                   ELSE IF p + 1 > K /\ p % 2 = 1 THEN Skip
                   ELSE E(16 * p, stdIv(p), QDiv(AbsMomentHi(n, S, p), QPow(sLo, p)))
      [] a = "ssk" -> IF n = 0 THEN Nan ELSE IF n = 1 THEN Exactly(QZero) ELSE IF const THEN Skip
                ELSE IF n = 2 THEN E(64, Pt(QZero), QDiv(AbsMomentHi(n, S, 3), sig3Lo))
                ELSE LET f2 == QFrac(n * (n - 1), (n - 2) * (n - 2))
                     IN  E(64, RootIv(QSign(m(3)), QMul(f2, QDiv(QMul(m(3), m(3)), QPow(m2, 3)))),
                           QMul(QSqrtHi(f2), QDiv(AbsMomentHi(n, S, 3), sig3Lo)))
      [] a = "sku" -> IF n < 4 THEN Nan ELSE IF const THEN Skip
                ELSE LET d == (n - 2) * (n - 3)
                         k == QDiv(m(4), QMul(m2, m2))
                     IN  E(64, Pt(QMul(QFrac(n - 1, d), QAdd(QMulI(QSub(k, Q(3)), n + 1), Q(6)))),
                           QAdd(QMul(QFrac(n * n - 1, d), k), QFrac(3 * (n - 1) * (n - 1), d)))

\* C17: sign and range, whatever the conditioning
RangeOK(i, st) ==
    LET n == cnt[i]
        nonneg(v) == v.c = "fin" /\ QSign(ValOf(v)) >= 0
        has(a) == a \in DOMAIN st IN
    /\ (n >= 1 /\ has("pvar")) => nonneg(st.pvar)
    /\ (n >= 2 /\ has("svar")) => nonneg(st.svar)
    /\ (n >= 1 /\ has("vmean")) => nonneg(st.vmean)
    /\ (n >= 1 /\ has("err")) => nonneg(st.err)
    /\ (n >= 1 /\ has("cm") /\ Len(st.cm) >= 3) => nonneg(st.cm[3])
    /\ (n >= 1 /\ has("mean")) =>
          LET slack == QMul(QMulI(U, 8 * n), xm[i]) IN
          st.mean.c = "fin" /\ Within(ValOf(st.mean), <<dlo[i], dhi[i]>>, slack)

Scalars == {"mean", "pvar", "svar", "vmean", "err", "skew", "kurt", "ssk", "sku"}

Chk(ok, what) == IF ok THEN TRUE ELSE PrintT(<<"MISMATCH at event", l, what>>) /\ FALSE

TObs == /\ IsEvent("obs") /\ Ev.id \in DOMAIN cnt
        /\ Chk(Ev.len = cnt[Ev.id], "len")
        /\ LET i == Ev.id
               st == Ev.st IN
           /\ \A a \in DOMAIN st \cap Scalars : Chk(Sat(st[a], Expect(i, a, 0), ao[i]), a)
           /\ ("cm" \in DOMAIN st => \A p \in 1..Len(st.cm) : Chk(Sat(st.cm[p], Expect(i, "cm", p - 1), ao[i]), <<"cm", p - 1>>))
           /\ ("sm" \in DOMAIN st => \A p \in 1..Len(st.sm) : Chk(Sat(st.sm[p], Expect(i, "sm", p - 1), ao[i]), <<"sm", p - 1>>))
           /\ Chk(RangeOK(i, st), "range (C17)")
        /\ UNCHANGED <<K, cnt, ps, xm, dlo, dhi, dom, ord, ao>>

TNext == TNew \/ TAdd \/ TBatch \/ TPar \/ TMerge \/ TClone \/ TSerde \/ TObs \/ TRestart

TSpec == TInit /\ [][TNext]_tvars

Accepted ==
    LET d == TLCGet("stats").diameter IN
    IF d - 1 = Len(Rec) THEN PrintT("TRACE-ACCEPTED " \o ToString(Len(Rec)) \o " envelope=" \o ToString(TLCGet(1))
                                    \o " exact=" \o ToString(TLCGet(2)) \o " sentinel=" \o ToString(TLCGet(3))
                                    \o " outside-quantifier=" \o ToString(TLCGet(4)))
    ELSE PrintT("TRACE-REJECTED first unmatched event " \o ToString(d) \o ": "
                \o (IF d <= Len(Rec) THEN ToJson(Rec[d]) ELSE "none"))
=============================================================================
