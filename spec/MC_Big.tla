------------------------------- MODULE MC_Big -------------------------------
(***************************************************************************)
(* Soundness checks of the unbounded arithmetic used by Trace_Moments.     *)
(*  1. the TLA+ definitions of Big.tla agree with TLC's native integers    *)
(*     on every pair from a set of small values (where both exist);        *)
(*  2. the Java overrides (Big.class) agree with the TLA+ definitions on   *)
(*     a set of values of up to ~140 decimal digits, both signs;           *)
(*  3. BigQ: field laws and the square-root brackets on a set of           *)
(*     rationals; BigQ agrees with Rat.tla where Rat.tla does not overflow.*)
(* All three are ASSUMEs: TLC evaluates them before the (trivial) model.   *)
(***************************************************************************)
EXTENDS BigQ, Rat, TLC

Small == (-40..40) \cup {99, 100, 101, -100, 9999, 10000, 10001, -9999, -10000, 19999, 20000, 46340, -46340, 32768}

ASSUME SmallAgrees ==
    \A a, b \in Small :
        /\ IsBig(BInt(a))
        /\ BToInt(BInt(a)) = a
        /\ BToInt(BAddP(BInt(a), BInt(b))) = a + b
        /\ BToInt(BSubP(BInt(a), BInt(b))) = a - b
        /\ BToInt(BMulP(BInt(a), BInt(b))) = a * b
        /\ BCmpP(BInt(a), BInt(b)) = (IF a < b THEN -1 ELSE IF a = b THEN 0 ELSE 1)
        /\ (a >= 0 /\ b > 0 =>
               /\ BToInt(BDivModP(BInt(a), BInt(b))[1]) = a \div b
               /\ BToInt(BDivModP(BInt(a), BInt(b))[2]) = a % b
               /\ BToInt(BGcdP(BInt(a), BInt(b))) = GCD(a, b))
        /\ (a >= 0 => LET s == BToInt(BSqrtP(BInt(a))) IN s * s <= a /\ (s + 1) * (s + 1) > a)
        /\ (a \in 0..9 /\ b \in 0..9 => BToInt(BPowP(BInt(a), b)) = IPow(a, b))

\* large values, built with the reference operators only
Seeds == {BPowP(BInt(7), 40), BPowP(BInt(10), 60), BSubP(BPowP(BInt(2), 200), BInt(1)), BPowP(BInt(9999), 9),
          BInt(12345), BInt(1), BZero, BPowP(BInt(2), 64)}
Large == Seeds \cup {BNeg(x) : x \in Seeds}

ASSUME OverridesAgree ==
    \A a, b \in Large :
        /\ IsBig(BAdd(a, b)) /\ IsBig(BMul(a, b))
        /\ BAdd(a, b) = BAddP(a, b)
        /\ BSub(a, b) = BSubP(a, b)
        /\ BMul(a, b) = BMulP(a, b)
        /\ BCmp(a, b) = BCmpP(a, b)
        /\ (a[1] >= 0 /\ b[1] > 0 =>
               /\ BDivMod(a, b) = BDivModP(a, b)
               /\ BGcd(a, b) = BGcdP(a, b)
               \* the defining property of floor division, with the overridden operators
               /\ LET qr == BDivMod(a, b) IN BAdd(BMul(qr[1], b), qr[2]) = a /\ BLt(qr[2], b) /\ qr[2][1] >= 0)
        /\ (a[1] >= 0 =>
               /\ BSqrt(a) = BSqrtP(a)
               /\ LET s == BSqrt(a) IN BLe(BMul(s, s), a) /\ BLt(a, BMul(BAdd(s, B1), BAdd(s, B1))))
        /\ \A k \in {0, 1, 2, 5} : BPow(a, k) = BPowP(a, k)

QSet == {QFrac(a, b) : a \in {-7, -1, 0, 1, 2, 3, 10}, b \in {1, 2, 3, 7, 1024}}
         \cup {QDy(BInt(3), -1074), QDy(BInt(-5), 900), QNorm(BPowP(BInt(7), 40), BPowP(BInt(10), 60))}

ASSUME QLaws ==
    \A a, b \in QSet :
        /\ IsQ(QAdd(a, b)) /\ IsQ(QMul(a, b))
        /\ QAdd(a, b) = QAdd(b, a)
        /\ QSub(QAdd(a, b), b) = a
        /\ (~QIsZero(b) => QMul(QDiv(a, b), b) = a)
        /\ QCmp(a, b) = -QCmp(b, a)
        /\ (QSign(a) >= 0 =>
               LET lo == QSqrtLo(a)  hi == QSqrtHi(a)
               IN  /\ QLe(QMul(lo, lo), a) /\ QLe(a, QMul(hi, hi)) /\ QLe(lo, hi)
                   \* hi - lo <= 2^-64 * hi
                   /\ QLe(QMul(QSub(hi, lo), <<BPow2(64), B1>>), QMax(hi, QDy(B1, -200))))

\* BigQ agrees with Rat.tla (TLC integers) where the latter does not overflow
ToRat(q) == <<BToInt(q[1]), BToInt(q[2])>>
RSet == {Frac(a, b) : a \in -6..6, b \in {1, 2, 3, 5, 12}}
OfRat(r) == QFrac(r[1], r[2])
ASSUME QIsRat ==
    \A a, b \in RSet :
        /\ ToRat(QAdd(OfRat(a), OfRat(b))) = RAdd(a, b)
        /\ ToRat(QMul(OfRat(a), OfRat(b))) = RMul(a, b)
        /\ ToRat(QSub(OfRat(a), OfRat(b))) = RSub(a, b)
        /\ (~RIsZero(b) => ToRat(QDiv(OfRat(a), OfRat(b))) = RDiv(a, b))
        /\ (QLe(OfRat(a), OfRat(b)) = RLe(a, b))

VARIABLE x
Init == x = 0
Next == x' = x
=============================================================================
