SPECIFICATION Spec
CONSTANTS
  Alphabet <- MCAlphabet
  PSet <- MCPSet
  MaxLen = 6
CONSTRAINT LenBound
INVARIANTS StepAgrees
CHECK_DEADLOCK FALSE
