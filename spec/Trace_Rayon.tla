----------------------------- MODULE Trace_Rayon -----------------------------
(***************************************************************************)
(* Trace specification for parallel collection: validates the ACTUAL       *)
(* schedules rayon produced.  The harness instantiates the repository's    *)
(* exported macro impl_from_par_iterator! on a Probe type that wraps a     *)
(* real estimator and logs new / add / merge with a global sequence number *)
(* taken inside each call.  Events:                                        *)
(*   {"op":"run","n":N}                       a new collect() of N items   *)
(*   {"op":"par_new","id":o}                                               *)
(*   {"op":"par_add","id":o,"idx":i}          item number i absorbed by o  *)
(*   {"op":"par_merge","dst":a,"src":b}       a.merge(&b)                  *)
(*   {"op":"par_return","id":o,"len":n,"seqlen":n}  the collected object   *)
(* Each event must be an object-level action of Rayon.tla; at par_return   *)
(* the object must hold 0..N-1 in order and report the sequential len().   *)
(***************************************************************************)
EXTENDS Integers, Sequences, FiniteSets, TLC, Json, IOUtils

Rec == ndJsonDeserialize(IOEnv.TRACE)

VARIABLES l, n, live, data, added, returned

R == INSTANCE RayonObj

tvars == <<l, n, live, data, added, returned>>

TInit == l = 1 /\ n = 0 /\ live = {} /\ data = [o \in {} |-> <<>>] /\ added = {} /\ returned = 0

Ev == Rec[l]
IsEvent(name) == l <= Len(Rec) /\ Ev.op = name /\ l' = l + 1

TRun == /\ IsEvent("run")
        /\ n' = Ev.n /\ live' = {} /\ data' = [o \in {} |-> <<>>] /\ added' = {} /\ returned' = 0
TNew == IsEvent("par_new") /\ R!PNew(Ev.id) /\ UNCHANGED <<n, returned>>
TAdd == IsEvent("par_add") /\ R!PAdd(Ev.id, Ev.idx, n) /\ UNCHANGED <<n, returned>>
TMerge == IsEvent("par_merge") /\ R!PMerge(Ev.dst, Ev.src) /\ UNCHANGED <<n, returned>>
TReturn == /\ IsEvent("par_return")
           /\ Ev.id \in live
           /\ data[Ev.id] = R!Range(0, n)          \* the whole input, in order
           /\ added = 0..(n - 1)                   \* every item exactly once
           /\ Ev.len = n /\ Ev.seqlen = n          \* len() exact, equal to the sequential one
           /\ Ev.extremes_equal                    \* min / max bit-equal to the sequential ones
           /\ returned' = Ev.id
           /\ UNCHANGED <<n, live, data, added>>

TNext == TRun \/ TNew \/ TAdd \/ TMerge \/ TReturn

TSpec == TInit /\ [][TNext]_tvars

Inv == R!Contiguous /\ R!Disjoint

Accepted ==
    LET d == TLCGet("stats").diameter IN
    IF d - 1 = Len(Rec) THEN PrintT("TRACE-ACCEPTED " \o ToString(Len(Rec)))
    ELSE PrintT("TRACE-REJECTED first unmatched event " \o ToString(d) \o ": "
                \o (IF d <= Len(Rec) THEN ToJson(Rec[d]) ELSE "none"))
=============================================================================
