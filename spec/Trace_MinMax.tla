---------------------------- MODULE Trace_MinMax ----------------------------
(***************************************************************************)
(* Trace specification for Min / Max (C14, and the Min/Max part of C11,    *)
(* C18, C19): validates long random histories recorded from the real       *)
(* estimators against MinMax.tla.  The abstract object of MinMax.tla       *)
(* ([mn, mx], ObjAddR, ObjMerge, NewObj) is reused unchanged; what the     *)
(* trace specification adds is an unbounded namespace of object ids and    *)
(* the ghost set `seen` of non-NaN values each object has absorbed, so the *)
(* property itself (extreme = min / max of the set, +-inf if empty) is     *)
(* asserted after every event, not only the mechanism.                     *)
(*                                                                         *)
(* Observations are integers (|v| <= 10^6), +-infinity (logged as          *)
(* +-2^30 = MinMax!PosInf / NegInf) or NaN ("nan": true).  -0.0 is logged  *)
(* as 0: the property compares as numbers.  Every event carries the        *)
(* extremes the real objects report after it ("mn", "mx").                 *)
(*   {"op":"new","id":i,"mn","mx"}                 new() / default()       *)
(*   {"op":"from","id":i,"r":v,"mn","mx"}          from_value(v)           *)
(*   {"op":"add","id":i,"nan":b,"r":v,"mn","mx"}                           *)
(*   {"op":"batch","id":i,"fresh":b,"xs":[{"nan":b,"r":v}..],"mn","mx"}    *)
(*        collect (fresh = TRUE) or extend (fresh = FALSE) of a sequence   *)
(*   {"op":"merge","dst":i,"src":j,"mn","mx","smn","smx"}                  *)
(*   {"op":"clone","dst":i,"src":j,"mn","mx"}                              *)
(*   {"op":"serde","id":i,"mn","mx"}               JSON round trip         *)
(*   {"op":"restart"}                                                      *)
(***************************************************************************)
EXTENDS Integers, Sequences, FiniteSets, TLC, Json, IOUtils

Rec == ndJsonDeserialize(IOEnv.TRACE)

VARIABLES l, obj, seen

\* MinMax.tla's object-level operators; its state variables are not used here
M == INSTANCE MinMax WITH Slots <- {}, obj <- obj, data <- seen

tvars == <<l, obj, seen>>

Empty == [o \in {} |-> 0]
TInit == l = 1 /\ obj = Empty /\ seen = Empty

Ev == Rec[l]
IsEvent(name) == l <= Len(Rec) /\ Ev.op = name /\ l' = l + 1

Put(f, o, v) == [x \in DOMAIN f \cup {o} |-> IF x = o THEN v ELSE f[x]]

\* C14 itself, for one object
SetMin(S) == CHOOSE m \in S : \A x \in S : m <= x
SetMax(S) == CHOOSE m \in S : \A x \in S : m >= x
IsDef(o, S) == /\ o.mn = IF S = {} THEN M!PosInf ELSE SetMin(S)
               /\ o.mx = IF S = {} THEN M!NegInf ELSE SetMax(S)

\* the event's logged extremes are the specification's, and the specification's are the definition
Reports(o) == /\ Ev.mn = obj'[o].mn /\ Ev.mx = obj'[o].mx
              /\ IsDef(obj'[o], seen'[o])

RECURSIVE FoldObj(_, _, _)
FoldObj(o, xs, i) == IF i > Len(xs) THEN o ELSE FoldObj(M!ObjAddR(o, xs[i].nan, xs[i].r), xs, i + 1)
Values(xs) == {xs[i].r : i \in {j \in 1..Len(xs) : ~xs[j].nan}}

TNew == /\ IsEvent("new")
        /\ obj' = Put(obj, Ev.id, M!NewObj) /\ seen' = Put(seen, Ev.id, {})
        /\ Reports(Ev.id)
TFrom == /\ IsEvent("from")
         /\ obj' = Put(obj, Ev.id, M!ObjAddR(M!NewObj, FALSE, Ev.r)) /\ seen' = Put(seen, Ev.id, {Ev.r})
         /\ Reports(Ev.id)
TAdd == /\ IsEvent("add") /\ Ev.id \in DOMAIN obj
        /\ obj' = Put(obj, Ev.id, M!ObjAddR(obj[Ev.id], Ev.nan, Ev.r))
        /\ seen' = Put(seen, Ev.id, IF Ev.nan THEN seen[Ev.id] ELSE seen[Ev.id] \cup {Ev.r})
        /\ Reports(Ev.id)
TBatch == /\ IsEvent("batch") /\ (Ev.fresh \/ Ev.id \in DOMAIN obj)
          /\ LET o0 == IF Ev.fresh THEN M!NewObj ELSE obj[Ev.id]
                 s0 == IF Ev.fresh THEN {} ELSE seen[Ev.id] IN
             /\ obj' = Put(obj, Ev.id, FoldObj(o0, Ev.xs, 1))
             /\ seen' = Put(seen, Ev.id, s0 \cup Values(Ev.xs))
          /\ Reports(Ev.id)
TMerge == /\ IsEvent("merge") /\ Ev.dst \in DOMAIN obj /\ Ev.src \in DOMAIN obj /\ Ev.dst # Ev.src
          /\ obj' = Put(obj, Ev.dst, M!ObjMerge(obj[Ev.dst], obj[Ev.src]))
          /\ seen' = Put(seen, Ev.dst, seen[Ev.dst] \cup seen[Ev.src])
          /\ Reports(Ev.dst)
          /\ Ev.smn = obj[Ev.src].mn /\ Ev.smx = obj[Ev.src].mx      \* the argument is untouched
TClone == /\ IsEvent("clone") /\ Ev.src \in DOMAIN obj
          /\ obj' = Put(obj, Ev.dst, obj[Ev.src]) /\ seen' = Put(seen, Ev.dst, seen[Ev.src])
          /\ Reports(Ev.dst)
\* a JSON round trip restores the same abstract object (C18); it is not an observation
TSerde == /\ IsEvent("serde") /\ Ev.id \in DOMAIN obj
          /\ UNCHANGED <<obj, seen>>
          /\ Reports(Ev.id)
TRestart == IsEvent("restart") /\ obj' = Empty /\ seen' = Empty

TNext == TNew \/ TFrom \/ TAdd \/ TBatch \/ TMerge \/ TClone \/ TSerde \/ TRestart

TSpec == TInit /\ [][TNext]_tvars

Accepted ==
    LET d == TLCGet("stats").diameter IN
    IF d - 1 = Len(Rec) THEN PrintT("TRACE-ACCEPTED " \o ToString(Len(Rec)))
    ELSE PrintT("TRACE-REJECTED first unmatched event " \o ToString(d) \o ": "
                \o (IF d <= Len(Rec) THEN ToJson(Rec[d]) ELSE "none"))
=============================================================================
