\* C13 / C11 / C17: two histograms over a few edge vectors, all operations
SPECIFICATION Spec
CONSTANTS
  LEN = 2
  Slots = {1, 2}
  MaxCount = 3
  BuildLen = 1
  Fixed = TRUE
VIEW View
INVARIANTS TypeOK EdgesSorted FindIsDef BinsAreCounts VarianceRange IterationOK
PROPERTIES CombineLaws PanicChangesNothing FailedAddChangesNothing
CHECK_DEADLOCK FALSE
