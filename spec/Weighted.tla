----------------------------- MODULE Weighted -----------------------------
(***************************************************************************)
(* WeightedMean and WeightedMeanWithError  (src/weighted_mean.rs).         *)
(*                                                                         *)
(* A slot holds a WeightedMeanWithError:                                   *)
(*    wsq            weight_sum_sq                                         *)
(*    ws, wavg       the embedded WeightedMean {weight_sum, weighted_avg}  *)
(*    n, avg, s2     the embedded MeanWithError (Variance{Mean{avg,n},sum_2})*)
(* A plain WeightedMean is the projection {ws, wavg}: its add and merge are *)
(* exactly the operators WAdd / WMerge below, so the same slot serves both. *)
(* Ghost data: the sequence of <<value, weight>> pairs absorbed.            *)
(*                                                                         *)
(* West's update divides by the running weight sum.  The property (C08)    *)
(* says a zero-weight observation, wherever it occurs (first included),    *)
(* changes only the unweighted statistics and len(): the specification     *)
(* therefore leaves the weighted mean untouched while the running weight   *)
(* sum is zero.                                                            *)
(***************************************************************************)
EXTENDS Integers, Sequences, FiniteSets, Rat, Exact

CONSTANTS Slots, Values, Weights     \* Weights: non-negative integers, 0 included

VARIABLES obj, data

vars == <<obj, data>>

Pairs == Values \X Weights

NewObj == [wsq |-> Zero, ws |-> Zero, wavg |-> Zero, n |-> 0, avg |-> Zero, s2 |-> Zero]

\* WeightedMean::add
WAdd(o, x, w) ==
    LET ws == RAdd(o.ws, R(w)) IN
    IF RIsZero(ws) THEN [o EXCEPT !.ws = ws]
    ELSE [o EXCEPT !.ws = ws,
                   !.wavg = RAdd(o.wavg, RMul(RDiv(R(w), ws), RSub(R(x), o.wavg)))]

\* Variance::add  (increment; delta_n = (x - mean)/n; add_inner)
VAdd(o, x) ==
    LET n  == o.n + 1
        dn == RDivI(RSub(R(x), o.avg), n)
    IN  [o EXCEPT !.n = n, !.avg = RAdd(o.avg, dn),
                  !.s2 = RAdd(o.s2, RMulI(RMul(dn, dn), n * (n - 1)))]

\* WeightedMeanWithError::add
ObjAdd(o, x, w) ==
    LET o1 == [o EXCEPT !.wsq = RAdd(o.wsq, R(w * w))] IN VAdd(WAdd(o1, x, w), x)

\* WeightedMean::merge: emptiness is judged by the weight sum
WMerge(a, b) ==
    IF RIsZero(b.ws) THEN a
    ELSE IF RIsZero(a.ws) THEN [a EXCEPT !.ws = b.ws, !.wavg = b.wavg]
    ELSE LET tot == RAdd(a.ws, b.ws) IN
         [a EXCEPT !.wavg = RDiv(RAdd(RMul(a.ws, a.wavg), RMul(b.ws, b.wavg)), tot), !.ws = tot]

\* Variance::merge (Chan), Mean::merge
VMerge(a, b) ==
    IF b.n = 0 THEN a
    ELSE IF a.n = 0 THEN [a EXCEPT !.n = b.n, !.avg = b.avg, !.s2 = b.s2]
    ELSE LET ls == a.n lo == b.n lt == ls + lo
             delta == RSub(b.avg, a.avg) IN
         [a EXCEPT !.n = lt,
                   !.avg = RDivI(RAdd(RMulI(a.avg, ls), RMulI(b.avg, lo)), lt),
                   !.s2 = RAdd(a.s2, RAdd(b.s2, RDivI(RMulI(RMul(delta, delta), ls * lo), lt)))]

\* WeightedMeanWithError::merge
ObjMerge(a, b) == VMerge(WMerge([a EXCEPT !.wsq = RAdd(a.wsq, b.wsq)], b), b)

Init == /\ obj  = [s \in Slots |-> NewObj]
        /\ data = [s \in Slots |-> <<>>]

Add(s, x, w) ==
    /\ obj'  = [obj  EXCEPT ![s] = ObjAdd(@, x, w)]
    /\ data' = [data EXCEPT ![s] = Append(@, <<x, w>>)]
Merge(d, s) ==
    /\ d # s
    /\ obj'  = [obj  EXCEPT ![d] = ObjMerge(@, obj[s])]
    /\ data' = [data EXCEPT ![d] = @ \o data[s]]
Clone(d, s) ==
    /\ d # s
    /\ obj'  = [obj  EXCEPT ![d] = obj[s]]
    /\ data' = [data EXCEPT ![d] = data[s]]
Fresh(s) ==
    /\ obj'  = [obj  EXCEPT ![s] = NewObj]
    /\ data' = [data EXCEPT ![s] = <<>>]
Checkpoint(s) == UNCHANGED vars

Next == \/ \E s \in Slots, p \in Pairs : Add(s, p[1], p[2])
        \/ \E d, s \in Slots : Merge(d, s) \/ Clone(d, s)
        \/ \E s \in Slots : Fresh(s) \/ Checkpoint(s)

Spec == Init /\ [][Next]_vars

(***************************************************************************)
(* Accessors                                                               *)
(***************************************************************************)
NaN       == [k |-> "nan"]
Val(r)    == [k |-> "rat", v |-> r]
Root(s, r) == IF s = 0 \/ RIsZero(r) THEN Val(Zero) ELSE [k |-> "root", s |-> s, v |-> r]

WIsEmpty(o)   == RIsZero(o.ws)                 \* WeightedMean::is_empty
IsEmpty(o)    == o.n = 0                       \* WeightedMeanWithError::is_empty
LenOf(o)      == o.n
SumWeights(o) == Val(o.ws)
SumWeightsSq(o) == Val(o.wsq)
WeightedMean(o) == IF RIsZero(o.ws) THEN NaN ELSE Val(o.wavg)
UnweightedMean(o) == IF o.n > 0 THEN Val(o.avg) ELSE NaN
EffectiveLen(o) == IF o.n = 0 THEN Val(Zero)
                   ELSE IF RIsZero(o.wsq) THEN NaN          \* 0*0/0
                   ELSE Val(RDiv(RMul(o.ws, o.ws), o.wsq))
PopVar(o)    == IF o.n = 0 THEN NaN ELSE Val(RDivI(o.s2, o.n))
SampleVar(o) == IF o.n < 2 THEN NaN ELSE Val(RDivI(o.s2, o.n - 1))
VarOfWMean(o) == IF RIsZero(o.ws) THEN NaN
                 ELSE IF o.n < 2 THEN NaN
                 ELSE Val(RMul(RDivI(o.s2, o.n - 1), RDiv(o.wsq, RMul(o.ws, o.ws))))
Error(o)     == IF RIsZero(o.ws) THEN NaN
                ELSE IF o.n < 2 THEN NaN
                ELSE Root(1, RMul(RDivI(o.s2, o.n - 1), RDiv(o.wsq, RMul(o.ws, o.ws))))

(***************************************************************************)
(* Definitions on the ghost data                                           *)
(***************************************************************************)
Xs(d) == [i \in 1..Len(d) |-> d[i][1]]
Ws(d) == [i \in 1..Len(d) |-> d[i][2]]
SumW(d)  == SumSeq(Ws(d))
SumW2(d) == SumSeq([i \in 1..Len(d) |-> d[i][2] * d[i][2]])
SumWX(d) == SumSeq([i \in 1..Len(d) |-> d[i][2] * d[i][1]])

TypeOK == \A s \in Slots :
    /\ IsRat(obj[s].wsq) /\ IsRat(obj[s].ws) /\ IsRat(obj[s].wavg)
    /\ obj[s].n \in Nat /\ IsRat(obj[s].avg) /\ IsRat(obj[s].s2)
    /\ data[s] \in Seq(Pairs)

\* C08
WeightedIsDef == \A s \in Slots : LET d == data[s] o == obj[s] IN
    /\ o.ws  = R(SumW(d))
    /\ o.wsq = R(SumW2(d))
    /\ SumW(d) > 0 => o.wavg = Norm(SumWX(d), SumW(d))
    /\ SumW(d) = 0 => o.wavg = Zero
UnweightedIsDef == \A s \in Slots : LET d == data[s] o == obj[s] IN
    /\ o.n = Len(d)
    /\ d # <<>> => /\ o.avg = MeanOf(Xs(d))
                   /\ o.s2  = CentralSum(Xs(d), 2)
    /\ d = <<>> => o = NewObj
ErrorIsDef == \A s \in Slots : LET d == data[s] o == obj[s] n == Len(d) IN
    (SumW(d) > 0 /\ n >= 2) =>
        VarOfWMean(o) = Val(RMul(RDivI(CentralSum(Xs(d), 2), n - 1), Norm(SumW2(d), SumW(d) * SumW(d))))

\* C17: for non-negative weights with positive sum, 1 <= effective_len <= len (Cauchy-Schwarz)
EffectiveLenRange == \A s \in Slots : LET d == data[s] o == obj[s] IN
    SumW(d) > 0 => /\ EffectiveLen(o).k = "rat"
                   /\ RLe(One, EffectiveLen(o).v)
                   /\ RLe(EffectiveLen(o).v, R(Len(d)))
\* C17: the weighted mean lies between the smallest and largest contributing observation
ContribXs(d) == LET idx == {i \in 1..Len(d) : d[i][2] > 0} IN {d[i][1] : i \in idx}
WeightedMeanInRange == \A s \in Slots : LET d == data[s] o == obj[s] IN
    SumW(d) > 0 => /\ \E x \in ContribXs(d) : RLe(R(x), o.wavg)
                   /\ \E x \in ContribXs(d) : RLe(o.wavg, R(x))

\* C16: sentinel rows
Sentinels == \A s \in Slots : LET d == data[s] o == obj[s] IN
    /\ d = <<>> => /\ WeightedMean(o) = NaN /\ UnweightedMean(o) = NaN
                   /\ SumWeights(o) = Val(Zero) /\ SumWeightsSq(o) = Val(Zero)
                   /\ EffectiveLen(o) = Val(Zero) /\ VarOfWMean(o) = NaN /\ Error(o) = NaN
                   /\ WIsEmpty(o) /\ IsEmpty(o)
    /\ SumW(d) = 0 => /\ WeightedMean(o) = NaN /\ VarOfWMean(o) = NaN /\ Error(o) = NaN
                      /\ WIsEmpty(o)
    /\ Len(d) = 1 => SampleVar(o) = NaN /\ VarOfWMean(o) = NaN

\* C08: a zero-weight observation changes only the unweighted statistics and len()
ZeroWeightInvisible ==
    [][\A s \in Slots, x \in Values :
         (obj' = [obj EXCEPT ![s] = ObjAdd(obj[s], x, 0)]) =>
            /\ obj'[s].ws = obj[s].ws /\ obj'[s].wavg = obj[s].wavg /\ obj'[s].wsq = obj[s].wsq
            /\ obj'[s].n = obj[s].n + 1]_vars

\* C11
MergeLaws ==
    [][\A d, s \in Slots :
         (d # s /\ obj' = [obj EXCEPT ![d] = ObjMerge(obj[d], obj[s])]
                /\ data' = [data EXCEPT ![d] = data[d] \o data[s]]) =>
            /\ obj'[d].n = obj[d].n + obj[s].n
            /\ obj'[s] = obj[s]
            /\ data[s] = <<>> => obj'[d] = obj[d]
            /\ data[d] = <<>> => obj'[d] = obj[s]]_vars
=============================================================================
