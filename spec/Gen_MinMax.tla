----------------------------- MODULE Gen_MinMax -----------------------------
(* Behaviour generator for Min / Max: see Gen_Moments. *)
EXTENDS MinMax, Json, TLC

CONSTANTS Mode, MaxLen, MaxDepth

VARIABLES hist, cur, phase, live

K == Cardinality(Slots)
RECURSIVE SumLens(_)
SumLens(i) == IF i = 0 THEN 0 ELSE Len(data[i]) + SumLens(i - 1)
Total == SumLens(K)

GInit == /\ Init /\ hist = <<>> /\ cur = 1 /\ phase = "feed" /\ live = <<>>

Log(e) == hist' = Append(hist, e)

SeqNext == \E t \in Tokens :
              /\ Len(data[1]) < MaxLen
              /\ Add(1, t) /\ Log(<<"add", 1, t>>)
              /\ UNCHANGED <<cur, phase, live>>

RemoveAt(s, i) == [j \in 1..(Len(s) - 1) |-> IF j < i THEN s[j] ELSE s[j + 1]]

Feed(t) == /\ phase = "feed" /\ Total < MaxLen
           /\ Add(cur, t) /\ Log(<<"add", cur, t>>)
           /\ UNCHANGED <<cur, phase, live>>
Cut     == /\ phase = "feed" /\ cur < K
           /\ cur' = cur + 1
           /\ UNCHANGED <<obj, data, hist, phase, live>>
Seal    == /\ phase = "feed"
           /\ phase' = "merge" /\ live' = [i \in 1..cur |-> i]
           /\ UNCHANGED <<obj, data, hist, cur>>
MergeAdj(i, fwd) ==
    /\ phase = "merge" /\ i \in 1..(Len(live) - 1)
    /\ LET a == live[i] b == live[i + 1] IN
         IF fwd THEN /\ Merge(a, b) /\ Log(<<"merge", a, b>>)
                     /\ live' = RemoveAt(live, i + 1)
                ELSE /\ Merge(b, a) /\ Log(<<"merge", b, a>>)
                     /\ live' = RemoveAt(live, i)
    /\ UNCHANGED <<cur, phase>>
TreeNext == \/ \E t \in Tokens : Feed(t)
            \/ Cut \/ Seal
            \/ \E i \in 1..K, fwd \in BOOLEAN : MergeAdj(i, fwd)

HistNext ==
    /\ Len(hist) < MaxDepth
    /\ UNCHANGED <<cur, phase, live>>
    /\ \/ \E s \in Slots, t \in Tokens :
             Len(data[s]) < MaxLen /\ Add(s, t) /\ Log(<<"add", s, t>>)
       \/ \E s \in Slots, t \in NonNaN : FromValue(s, t) /\ Log(<<"from", s, t>>)
       \/ \E d, s \in Slots :
             Len(data[d]) + Len(data[s]) <= MaxLen /\ Merge(d, s) /\ Log(<<"merge", d, s>>)
       \/ \E d, s \in Slots : Clone(d, s) /\ Log(<<"clone", d, s>>)
       \/ \E s \in Slots : Fresh(s) /\ Log(<<"fresh", s>>)
       \/ \E s \in Slots : Checkpoint(s) /\ Log(<<"ckpt", s>>)

GNext == CASE Mode = "seq"  -> SeqNext
           [] Mode = "tree" -> TreeNext
           [] Mode = "hist" -> HistNext

GSpec == GInit /\ [][GNext]_<<obj, data, hist, cur, phase, live>>

Export(s) == [data |-> data[s], mn |-> obj[s].mn, mx |-> obj[s].mx]

Emit == PrintT(ToJson([h |-> hist, s |-> [s \in 1..K |-> Export(s)]]))
=============================================================================
