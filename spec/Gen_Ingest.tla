----------------------------- MODULE Gen_Ingest -----------------------------
EXTENDS Ingest, Json, TLC
Emit == PrintT(ToJson([steps |-> steps, data |-> data]))
GenAlphabet == {-1, 2}
=============================================================================
