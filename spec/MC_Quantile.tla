---------------------------- MODULE MC_Quantile ----------------------------
EXTENDS Quantile
CONSTANTS MaxLen
MCAlphabet == {0, 1, 2, 3}
MCPSet == {Zero, Norm(1, 4), Norm(1, 2), Norm(3, 4), One}
\* every k/n boundary for n <= 4 plus sixteenths: the small path is checked on all of them
MCPSmall == {Norm(k, 16) : k \in 0..16} \cup {Norm(1, 3), Norm(2, 3)}
LenBound == cnt <= MaxLen
=============================================================================
