--------------------------- MODULE Ind_Covariance ---------------------------
(***************************************************************************)
(* Unbounded algebraic layer (Apalache) for the co-moment of Covariance    *)
(* (src/covariance.rs), denominators cleared, as an inductive invariant    *)
(* over unbounded integers.  c = n * sum_prod.                             *)
(* Code:  sum_prod' = sum_prod + (x - mean_x_OLD) * (y - mean_y_NEW)       *)
(*   <=>  n * c' = (n + 1) * c + (n x - sx)(n y - sy)        (n >= 1)      *)
(* Merge: sum_prod' = a + b + dx dy na nb / (na + nb)                      *)
(*   <=>  na nb c' = nb n ca + na n cb + (na sxb - nb sxa)(na syb - nb sya)*)
(* Invariant:  c = n * sum(xy) - sx * sy                                   *)
(*   apalache-mc check --init=IndInit --inv=IndInv --length=1 Ind_Covariance.tla *)
(***************************************************************************)
EXTENDS Integers

VARIABLES
    \* @type: Int;
    na,
    \* @type: Int;
    sxa,
    \* @type: Int;
    sya,
    \* @type: Int;
    pa,
    \* @type: Int;
    ca,
    \* @type: Int;
    nb,
    \* @type: Int;
    sxb,
    \* @type: Int;
    syb,
    \* @type: Int;
    pb,
    \* @type: Int;
    cb

Def(n, sx, sy, p, c) == n >= 0 /\ c = n * p - sx * sy /\ (n = 0 => (sx = 0 /\ sy = 0 /\ p = 0))

IndInv == Def(na, sxa, sya, pa, ca) /\ Def(nb, sxb, syb, pb, cb)

IndInit ==
    /\ na \in Int /\ sxa \in Int /\ sya \in Int /\ pa \in Int /\ ca \in Int
    /\ nb \in Int /\ sxb \in Int /\ syb \in Int /\ pb \in Int /\ cb \in Int
    /\ IndInv

Init == /\ na = 0 /\ sxa = 0 /\ sya = 0 /\ pa = 0 /\ ca = 0
        /\ nb = 0 /\ sxb = 0 /\ syb = 0 /\ pb = 0 /\ cb = 0

AddA == \E x \in Int, y \in Int :
    /\ na' = na + 1 /\ sxa' = sxa + x /\ sya' = sya + y /\ pa' = pa + x * y
    /\ IF na = 0 THEN ca' = 0
       ELSE \E cn \in Int : na * cn = (na + 1) * ca + (na * x - sxa) * (na * y - sya) /\ ca' = cn
    /\ UNCHANGED <<nb, sxb, syb, pb, cb>>

AddB == \E x \in Int, y \in Int :
    /\ nb' = nb + 1 /\ sxb' = sxb + x /\ syb' = syb + y /\ pb' = pb + x * y
    /\ IF nb = 0 THEN cb' = 0
       ELSE \E cn \in Int : nb * cn = (nb + 1) * cb + (nb * x - sxb) * (nb * y - syb) /\ cb' = cn
    /\ UNCHANGED <<na, sxa, sya, pa, ca>>

MergeAB ==
    /\ UNCHANGED <<nb, sxb, syb, pb, cb>>
    /\ IF nb = 0 THEN UNCHANGED <<na, sxa, sya, pa, ca>>
       ELSE IF na = 0 THEN na' = nb /\ sxa' = sxb /\ sya' = syb /\ pa' = pb /\ ca' = cb
       ELSE /\ na' = na + nb /\ sxa' = sxa + sxb /\ sya' = sya + syb /\ pa' = pa + pb
            /\ \E cn \in Int :
                 /\ na * nb * cn = nb * (na + nb) * ca + na * (na + nb) * cb
                                   + (na * sxb - nb * sxa) * (na * syb - nb * sya)
                 /\ ca' = cn

Next == AddA \/ AddB \/ MergeAB \/ UNCHANGED <<na, sxa, sya, pa, ca, nb, sxb, syb, pb, cb>>
=============================================================================
