--------------------------- MODULE Gen_Covariance ---------------------------
(* Behaviour generator for Covariance: see Gen_Moments. *)
EXTENDS Covariance, Json, TLC

CONSTANTS Mode, MaxLen, MaxDepth

VARIABLES hist, cur, phase, live

K == Cardinality(Slots)
Total == SumSeq([s \in 1..K |-> Len(data[s])])

GInit == /\ Init
         /\ hist = <<>>
         /\ cur = 1
         /\ phase = "feed"
         /\ live = <<>>

Log(e) == hist' = Append(hist, e)

SeqNext == \E p \in Pairs :
              /\ Len(data[1]) < MaxLen
              /\ Add(1, p[1], p[2]) /\ Log(<<"add", 1, p[1], p[2]>>)
              /\ UNCHANGED <<cur, phase, live>>

RemoveAt(s, i) == [j \in 1..(Len(s) - 1) |-> IF j < i THEN s[j] ELSE s[j + 1]]

Feed(p) == /\ phase = "feed" /\ Total < MaxLen
           /\ Add(cur, p[1], p[2]) /\ Log(<<"add", cur, p[1], p[2]>>)
           /\ UNCHANGED <<cur, phase, live>>
Cut     == /\ phase = "feed" /\ cur < K
           /\ cur' = cur + 1
           /\ UNCHANGED <<obj, twin, data, hist, phase, live>>
Seal    == /\ phase = "feed"
           /\ phase' = "merge" /\ live' = [i \in 1..cur |-> i]
           /\ UNCHANGED <<obj, twin, data, hist, cur>>
MergeAdj(i, fwd) ==
    /\ phase = "merge" /\ i \in 1..(Len(live) - 1)
    /\ LET a == live[i] b == live[i + 1] IN
         IF fwd THEN /\ Merge(a, b) /\ Log(<<"merge", a, b>>)
                     /\ live' = RemoveAt(live, i + 1)
                ELSE /\ Merge(b, a) /\ Log(<<"merge", b, a>>)
                     /\ live' = RemoveAt(live, i)
    /\ UNCHANGED <<cur, phase>>
TreeNext == \/ \E p \in Pairs : Feed(p)
            \/ Cut \/ Seal
            \/ \E i \in 1..K, fwd \in BOOLEAN : MergeAdj(i, fwd)

HistNext ==
    /\ Len(hist) < MaxDepth
    /\ UNCHANGED <<cur, phase, live>>
    /\ \/ \E s \in Slots, p \in Pairs :
             Len(data[s]) < MaxLen /\ Add(s, p[1], p[2]) /\ Log(<<"add", s, p[1], p[2]>>)
       \/ \E d, s \in Slots :
             Len(data[d]) + Len(data[s]) <= MaxLen /\ Merge(d, s) /\ Log(<<"merge", d, s>>)
       \/ \E d, s \in Slots : Clone(d, s) /\ Log(<<"clone", d, s>>)
       \/ \E s \in Slots : Fresh(s) /\ Log(<<"fresh", s>>)
       \/ \E s \in Slots : Checkpoint(s) /\ Log(<<"ckpt", s>>)

GNext == CASE Mode = "seq"  -> SeqNext
           [] Mode = "tree" -> TreeNext
           [] Mode = "hist" -> HistNext

GSpec == GInit /\ [][GNext]_<<obj, twin, data, hist, cur, phase, live>>

Enc(a) == CASE a.k = "nan"   -> "nan"
            [] a.k = "undef" -> "undef"
            [] a.k = "panic" -> "panic"
            [] a.k = "rat"   -> a.v
            [] a.k = "root"  -> <<a.s, a.v[1], a.v[2]>>

Export(s) ==
    LET o == obj[s] IN
    [ n    |-> o.n,
      data |-> data[s],
      mx   |-> Enc(MeanX(o)),
      my   |-> Enc(MeanY(o)),
      pvx  |-> Enc(PopVarX(o)),
      pvy  |-> Enc(PopVarY(o)),
      svx  |-> Enc(SampleVarX(o)),
      svy  |-> Enc(SampleVarY(o)),
      pcov |-> Enc(PopCov(o)),
      scov |-> Enc(SampleCov(o)),
      pear |-> Enc(Pearson(o)) ]

Emit == PrintT(ToJson([h |-> hist, s |-> [s \in 1..K |-> Export(s)]]))

GenValues == {-1, 0, 2}
=============================================================================
