SPECIFICATION Spec
CONSTANTS
  Alphabet <- GenAlphabet
  MaxLen = 4
  MaxChunk = 2
  MaxSteps = 4
  NFields = 3
INVARIANTS MeaningIsAddLoop FieldsSeeEverything NoPoison Emit
CHECK_DEADLOCK FALSE
