\* the small-sample path on the full p grid (every k/n boundary), all sequences of length <= 4
SPECIFICATION Spec
CONSTANTS
  Alphabet <- MCAlphabet
  PSet <- MCPSmall
  MaxLen = 4
CONSTRAINT LenBound
INVARIANTS TypeOK SmallPathDefs InRange
CHECK_DEADLOCK FALSE
