------------------------------ MODULE BigStats ------------------------------
(***************************************************************************)
(* The textbook statistics of a finite multiset of rationals, as functions *)
(* of its size n and its power sums S[k] = sum x^k (k = 1..K), in the      *)
(* unbounded exact arithmetic of BigQ, and the error envelopes of          *)
(* DESIGN.md section 5 as exact rational predicates.                       *)
(*                                                                         *)
(* Power sums are additive under concatenation, so they are the natural    *)
(* abstract state for validating traces of add / merge histories: whatever *)
(* the history, the object stands for the multiset whose power sums are    *)
(* the sums of what went in.  MC_Big.tla checks these definitions against  *)
(* Exact.tla (definitions on the sequence itself, Rat arithmetic) on every *)
(* short sequence over a small alphabet.                                   *)
(***************************************************************************)
EXTENDS BigQ

RECURSIVE BinomI(_, _)
BinomI(n, k) == IF k = 0 THEN 1 ELSE (BinomI(n, k - 1) * (n - k + 1)) \div k

RECURSIVE QSumRange(_, _, _)
QSumRange(f(_), lo, hi) == IF lo > hi THEN QZero ELSE QAdd(f(lo), QSumRange(f, lo + 1, hi))

\* power sums of one value:  [k \in 1..K |-> x^k]
RECURSIVE PowersUpTo(_, _)
PowersUpTo(x, K) == IF K = 0 THEN <<>> ELSE LET r == PowersUpTo(x, K - 1)
                                            IN  Append(r, IF K = 1 THEN x ELSE QMul(r[K - 1], x))
ZeroSums(K) == [k \in 1..K |-> QZero]
AddSums(S, T) == [k \in DOMAIN S |-> QAdd(S[k], T[k])]

Sk(n, S, k) == IF k = 0 THEN Q(n) ELSE S[k]
MeanOfSums(n, S) == QDivI(S[1], n)

\* sum (x - mean)^p = sum_k binom(p, k) S_k (-mean)^(p-k)
CentralSumS(n, S, p) ==
    LET nm == QNeg(MeanOfSums(n, S))
        f(k) == QMul(QMulI(Sk(n, S, k), BinomI(p, k)), QPow(nm, p - k))
    IN  QSumRange(f, 0, p)
CentralMomentS(n, S, p) == QDivI(CentralSumS(n, S, p), n)

(***************************************************************************)
(* Envelopes (DESIGN.md section 5).  u = 2^-53.  With sigma the population *)
(* standard deviation, X = max |x| and kappa = 1 + X / sigma, a statistic  *)
(* s with exact value s* conforms iff                                      *)
(*       |s - s*|  <=  C * n * kappa * u * scale  +  4 u |s*|              *)
(* sigma is irrational in general: SigLo <= sigma <= SigHi are rationals   *)
(* 2^-64 apart (relative), and every use below takes the bound that makes  *)
(* the envelope no smaller than the real one (so a conforming observation  *)
(* is never rejected) while widening it by less than a relative 2^-60.     *)
(* The odd absolute central moments A_p = (1/n) sum |x - mean|^p are not   *)
(* functions of the power sums; they are replaced by their Cauchy-Schwarz  *)
(* bound sqrt(m_(p-1) * m_(p+1)) >= A_p.                                   *)
(***************************************************************************)
U == QDy(B1, -53)

\* interval [lo, hi] containing an irrational exact value; Pt(v) for a rational one
Pt(v) == <<v, v>>
\* sign * sqrt(r)
RootIv(sign, r) == IF sign = 0 \/ QIsZero(r) THEN Pt(QZero)
                   ELSE IF sign > 0 THEN <<QSqrtLo(r), QSqrtHi(r)>>
                   ELSE <<QNeg(QSqrtHi(r)), QNeg(QSqrtLo(r))>>
IvAbsHi(iv) == QMax(QAbs(iv[1]), QAbs(iv[2]))

\* obs within tol of some point of the interval
Within(obs, iv, tol) == QLe(QSub(iv[1], tol), obs) /\ QLe(obs, QAdd(iv[2], tol))

\* C * n * kappa * u * scale + 4 u |s*|, with kappa = (sigma + X) / sigma
Tol(C, n, sigLo, sigHi, X, scaleHi, sAbsHi) ==
    QAdd(QMul(QMul(QMulI(U, C * n), QDiv(QAdd(sigHi, X), sigLo)), scaleHi),
         QMul(QMulI(U, 4), sAbsHi))

\* upper bound of the p-th absolute central moment
AbsMomentHi(n, S, p) ==
    IF p % 2 = 0 THEN CentralMomentS(n, S, p)
    ELSE QSqrtHi(QMul(CentralMomentS(n, S, p - 1), CentralMomentS(n, S, p + 1)))
=============================================================================
