SPECIFICATION GSpec
CONSTANTS
  Alphabet <- GenAlphabet
  PSet <- GenPSmall
  MaxLen = 4
INVARIANT Emit
CHECK_DEADLOCK FALSE
