---------------------------- MODULE Ind_Variance ----------------------------
(***************************************************************************)
(* Unbounded algebraic layer (Apalache): the Welford update and the Chan   *)
(* merge of Moments.tla / Weighted.tla / Covariance.tla, order 2, with     *)
(* denominators cleared so that everything is integer arithmetic, checked  *)
(* as an INDUCTIVE invariant over unbounded integers -- for every n, every *)
(* input value, every pair of summaries, not only the bounded ones TLC     *)
(* enumerates.                                                             *)
(*                                                                         *)
(* An estimator is represented by  n, s = sum x, q = sum x^2 (ghost) and   *)
(*   t = n * sum_2   where sum_2 is the field of `Variance`.               *)
(* Code (variance.rs):  sum_2' = sum_2 + delta_n^2 * n'(n'-1),             *)
(*   delta_n = (x - s/n)/n',  n' = n + 1                                   *)
(*   <=>  n * t' = (n + 1) * t + (n x - s)^2          (n >= 1)             *)
(* Merge (Chan):  sum_2' = a.sum_2 + b.sum_2 + delta^2 na nb / (na+nb)     *)
(*   <=>  na nb t' = nb n ta + na n tb + (na sb - nb sa)^2,  n = na + nb   *)
(* Invariant:  t = n q - s^2   (i.e. sum_2 = sum (x - mean)^2), and t >= 0 *)
(* follows from Cauchy-Schwarz -- stated for the two-object state.         *)
(*                                                                         *)
(*   apalache-mc check --init=IndInit --inv=IndInv --length=1 Ind_Variance.tla *)
(***************************************************************************)
EXTENDS Integers

VARIABLES
    \* @type: Int;
    na,
    \* @type: Int;
    sa,
    \* @type: Int;
    qa,
    \* @type: Int;
    ta,
    \* @type: Int;
    nb,
    \* @type: Int;
    sb,
    \* @type: Int;
    qb,
    \* @type: Int;
    tb

Def(n, s, q, t) == n >= 0 /\ t = n * q - s * s /\ (n = 0 => (s = 0 /\ q = 0))

IndInv == Def(na, sa, qa, ta) /\ Def(nb, sb, qb, tb)

\* any state satisfying the invariant (the inductive hypothesis)
IndInit ==
    /\ na \in Int /\ sa \in Int /\ qa \in Int /\ ta \in Int
    /\ nb \in Int /\ sb \in Int /\ qb \in Int /\ tb \in Int
    /\ IndInv

Init == na = 0 /\ sa = 0 /\ qa = 0 /\ ta = 0 /\ nb = 0 /\ sb = 0 /\ qb = 0 /\ tb = 0

\* a.add(x)
AddA == \E x \in Int :
    /\ na' = na + 1 /\ sa' = sa + x /\ qa' = qa + x * x
    /\ IF na = 0 THEN ta' = 0
       ELSE \E tn \in Int : na * tn = (na + 1) * ta + (na * x - sa) * (na * x - sa) /\ ta' = tn
    /\ UNCHANGED <<nb, sb, qb, tb>>

\* b.add(x)
AddB == \E x \in Int :
    /\ nb' = nb + 1 /\ sb' = sb + x /\ qb' = qb + x * x
    /\ IF nb = 0 THEN tb' = 0
       ELSE \E tn \in Int : nb * tn = (nb + 1) * tb + (nb * x - sb) * (nb * x - sb) /\ tb' = tn
    /\ UNCHANGED <<na, sa, qa, ta>>

\* a.merge(&b) with the code's early returns
MergeAB ==
    /\ UNCHANGED <<nb, sb, qb, tb>>
    /\ IF nb = 0 THEN UNCHANGED <<na, sa, qa, ta>>
       ELSE IF na = 0 THEN na' = nb /\ sa' = sb /\ qa' = qb /\ ta' = tb
       ELSE /\ na' = na + nb /\ sa' = sa + sb /\ qa' = qa + qb
            /\ \E tn \in Int :
                 /\ na * nb * tn = nb * (na + nb) * ta + na * (na + nb) * tb
                                   + (na * sb - nb * sa) * (na * sb - nb * sa)
                 /\ ta' = tn

Next == AddA \/ AddB \/ MergeAB \/ UNCHANGED <<na, sa, qa, ta, nb, sb, qb, tb>>
=============================================================================
