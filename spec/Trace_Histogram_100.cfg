SPECIFICATION TSpec
CONSTANTS
  LEN = 100
  Slots = {1, 2}
INVARIANTS EdgesSorted
POSTCONDITION Accepted
CHECK_DEADLOCK FALSE
