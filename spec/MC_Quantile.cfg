SPECIFICATION Spec
CONSTANTS
  Alphabet <- MCAlphabet
  PSet <- MCPSet
  MaxLen = 6
CONSTRAINT LenBound
INVARIANTS TypeOK SmallPathDefs MarkersWellFormed InRange
PROPERTIES OneStepMoves SkeletonIsStep
CHECK_DEADLOCK FALSE
