SPECIFICATION Spec
CONSTANTS
  N = 4
  Ids = {1, 2, 3, 4, 5, 6, 7, 8}
INVARIANTS Contiguous Disjoint DoneMatches ReturnedIsSequential
PROPERTY Terminates
CHECK_DEADLOCK FALSE

