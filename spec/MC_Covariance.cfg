SPECIFICATION Spec
CONSTANTS
  Slots = {1, 2}
  Values <- MCValues
  MaxLen = 2
CONSTRAINT LenBound
INVARIANTS TypeOK CovIsDef CauchySchwarz SwapSymmetric Sentinels
PROPERTIES MergeLaws
CHECK_DEADLOCK FALSE
