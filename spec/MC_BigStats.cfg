CONSTANTS
  MaxLen = 4
  MaxP = 5
INIT Init
NEXT Next
