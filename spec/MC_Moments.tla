---------------------------- MODULE MC_Moments ----------------------------
EXTENDS Moments
CONSTANTS MaxLen          \* bound on the ghost data of any one slot
MCAlphabet == {-3, -1, 0, 2, 3}
MCAlphabetSmall == {-1, 0, 2}
MCAlphabetTiny == {0, 1, 2}
LenBound == \A s \in Slots : Len(data[s]) <= MaxLen
=============================================================================
