----------------------------- MODULE Trace_QStep ----------------------------
(***************************************************************************)
(* One-step conformance of the real Quantile with the P-square step of the *)
(* specification, in exact arithmetic, on long recorded streams (C05).     *)
(*                                                                         *)
(* For every observation from the sixth on the recorder logs the marker    *)
(* state of the real estimator before and after the call (heights and      *)
(* desired positions as the exact dyadic rationals the f64 fields are,     *)
(* positions as integers) and the observation.  TLC applies                *)
(* QuantileBig!StepSetB - Quantile.tla's Step over unbounded rationals -   *)
(* to the logged PRE-state and requires the logged POST-state to be one    *)
(* of its outcomes:                                                        *)
(*   - desired positions: pre + increment, to within one rounding          *)
(*     (exactly, when p is dyadic);                                        *)
(*   - positions: exactly those of the step;                               *)
(*   - heights: each within tol = 32 * 2^-53 * (largest height magnitude   *)
(*     involved) of the exact step's, where the step may take either       *)
(*     branch of the parabolic acceptance test only if the exact           *)
(*     candidate is within tol of a neighbouring height;                   *)
(*   - quantile() is bit for bit the middle marker.                        *)
(* Because every step starts from the implementation's own pre-state,      *)
(* rounding does not accumulate and the check is as sharp at the 5,000th   *)
(* observation as at the sixth.                                            *)
(*                                                                         *)
(*   {"op":"qnew","p":D}                                                   *)
(*   {"op":"qstep","x":D,"pre":{"q":[D5],"n":[i5],"m":[D5]},               *)
(*                 "post":{..},"est":V}                                    *)
(***************************************************************************)
EXTENDS QuantileBig, TLC, Json, IOUtils, FiniteSets

Rec == ndJsonDeserialize(IOEnv.TRACE)

VARIABLES l, p, last
\* last: the post-state of the previous step of the stream (the next pre-state must be it)
tvars == <<l, p, last>>

TInit == TLCSet(1, 0) /\ TLCSet(2, 0) /\ l = 1 /\ p = QZero /\ last = <<>>

Ev == Rec[l]
IsEvent(name) == l <= Len(Rec) /\ Ev.op = name /\ l' = l + 1
Dy(d) == QDy(d.m, d.e)
Heights(s) == [i \in Five |-> Dy(s.q[i])]
Desired(s) == [i \in Five |-> Dy(s.m[i])]
Pos(s) == [i \in Five |-> s.n[i]]

U == QDy(B1, -53)
Chk(ok, what) == IF ok THEN TRUE ELSE PrintT(<<"MISMATCH at event", l, what>>) /\ FALSE
Bump(r) == TLCSet(r, TLCGet(r) + 1)

TNew == IsEvent("qnew") /\ p' = Dy(Ev.p) /\ last' = <<>>

RECURSIVE MaxAbs(_, _)
MaxAbs(h, i) == IF i = 0 THEN QZero ELSE QMax(QAbs(h[i]), MaxAbs(h, i - 1))

TStep ==
    /\ IsEvent("qstep")
    /\ LET h == Heights(Ev.pre)   n == Pos(Ev.pre)   m == Desired(Ev.pre)
           h2 == Heights(Ev.post) n2 == Pos(Ev.post) m2 == Desired(Ev.post)
           x == Dy(Ev.x)
           scale == QMax(MaxAbs(h, 5), QAbs(x))
           tol == QMul(QMulI(U, 32), scale)
           \* desired positions: one f64 addition each
           mOK == \A i \in Five : LET e == QAdd(m[i], DmB(p)[i]) IN
                                  QLe(QAbs(QSub(m2[i], e)), QMul(QMulI(U, 2), QAbs(e)))
           \* the step from the pre-state, with the desired positions the implementation actually holds
           S == StepSetB(h, n, m2, x, tol)
           hit == \E r \in S : /\ r.n = n2
                               /\ \A i \in Five : QLe(QAbs(QSub(h2[i], r.h[i])), tol)
       IN  /\ Chk(last = <<>> \/ last = Ev.pre, "the pre-state is not the previous post-state")
           /\ Chk(mOK, "desired positions")
           /\ Chk(\E r \in S : r.n = n2, "positions")
           /\ Chk(hit, "heights")
           /\ Chk(Ev.est.c = "fin" /\ Dy(Ev.est) = h2[3], "quantile() is not the middle marker")
           /\ Bump(1) /\ (IF Cardinality(S) > 1 THEN Bump(2) ELSE TRUE)
    /\ last' = Ev.post
    /\ UNCHANGED p

TNext == TNew \/ TStep
TSpec == TInit /\ [][TNext]_tvars

Accepted ==
    LET d == TLCGet("stats").diameter IN
    IF d - 1 = Len(Rec) THEN PrintT("TRACE-ACCEPTED " \o ToString(Len(Rec)) \o " steps=" \o ToString(TLCGet(1))
                                    \o " steps-with-a-rounding-sensitive-acceptance-test=" \o ToString(TLCGet(2)))
    ELSE PrintT("TRACE-REJECTED first unmatched event " \o ToString(d) \o ": "
                \o (IF d <= Len(Rec) THEN ToJson(Rec[d]) ELSE "none"))
=============================================================================
