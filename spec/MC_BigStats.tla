---------------------------- MODULE MC_BigStats ----------------------------
(***************************************************************************)
(* BigStats.tla (statistics from power sums, unbounded arithmetic) against *)
(* Exact.tla (statistics from the sequence itself, Rat arithmetic), on     *)
(* every sequence over a small alphabet up to a length bound.  This is     *)
(* what entitles Trace_Moments.tla to carry power sums instead of the      *)
(* data: the two definitions are the same function of the multiset, and    *)
(* power sums are additive under concatenation (merge).                    *)
(***************************************************************************)
EXTENDS BigStats, Exact, TLC

CONSTANTS MaxLen, MaxP
Alphabet == {-2, -1, 0, 3}

RECURSIVE SeqsUpTo(_)
SeqsUpTo(k) == IF k = 0 THEN {<<>>} ELSE
               LET S == SeqsUpTo(k - 1) IN S \cup {Append(s, a) : s \in {t \in S : Len(t) = k - 1}, a \in Alphabet}

ToRat(q) == <<BToInt(q[1]), BToInt(q[2])>>

RECURSIVE SumsOf(_, _)
SumsOf(s, Kk) == IF s = <<>> THEN ZeroSums(Kk) ELSE AddSums(SumsOf(Tail(s), Kk), PowersUpTo(Q(Head(s)), Kk))

ASSUME StatsAgree ==
    \A s \in SeqsUpTo(MaxLen) :
        s # <<>> =>
        LET n == Len(s)
            S == SumsOf(s, MaxP + 1) IN
        /\ \A k \in 1..(MaxP + 1) : ToRat(S[k]) = R(PowerSum(s, k))
        /\ ToRat(MeanOfSums(n, S)) = MeanOf(s)
        /\ \A p \in 2..MaxP : ToRat(CentralSumS(n, S, p)) = CentralSum(s, p)
        \* Cauchy-Schwarz bound of the absolute central moments (what the envelopes use)
        /\ \A p \in 2..MaxP : LET a == RDivI(AbsCentralSum(s, p), n) IN QLe(QFrac(a[1], a[2]), AbsMomentHi(n, S, p))
        \* concatenation adds power sums
        /\ \A i \in 0..n : AddSums(SumsOf(SubSeq(s, 1, i), MaxP + 1), SumsOf(SubSeq(s, i + 1, n), MaxP + 1)) = S

VARIABLE x
Init == x = 0
Next == x' = x
=============================================================================
