SPECIFICATION GSpec
CONSTANTS
  Alphabet <- GenAlphabet
  PSet <- GenPSet
  MaxLen = 7
INVARIANT Emit
CHECK_DEADLOCK FALSE
