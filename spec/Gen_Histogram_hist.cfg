SPECIFICATION GSpec
CONSTANTS
  LEN = 2
  Slots = {1, 2}
  Mode = "hist"
  BuildLen = 3
  MaxDepth = 3
  MaxCount = 3
INVARIANT Emit
CHECK_DEADLOCK FALSE
