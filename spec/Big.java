import java.math.BigInteger;
import tlc2.value.impl.IntValue;
import tlc2.value.impl.TupleValue;
import tlc2.value.impl.Value;

/**
 * TLC module override for Big.tla: the operators marked (override) there, on java.math.BigInteger.
 * A big integer is the TLA+ tuple <<sign, limbs>>, limbs base 10000, least significant first.
 * The TLA+ definitions in Big.tla are the meaning; MC_Big.tla checks these methods against them.
 */
public class Big {
    private static final BigInteger BASE = BigInteger.valueOf(10000);
    private static final TupleValue EMPTY = new TupleValue(new Value[0]);
    private static final Value ZERO = new TupleValue(new Value[] {IntValue.gen(0), EMPTY});

    static BigInteger dec(Value v) {
        TupleValue t = (TupleValue) v.toTuple();
        int sign = ((IntValue) t.elems[0]).val;
        if (sign == 0) return BigInteger.ZERO;
        TupleValue limbs = (TupleValue) t.elems[1].toTuple();
        // decimal string, most significant limb first
        StringBuilder sb = new StringBuilder(limbs.elems.length * 4 + 1);
        for (int i = limbs.elems.length - 1; i >= 0; i--) {
            int d = ((IntValue) limbs.elems[i]).val;
            if (i == limbs.elems.length - 1) sb.append(d);
            else {
                if (d < 1000) sb.append('0');
                if (d < 100) sb.append('0');
                if (d < 10) sb.append('0');
                sb.append(d);
            }
        }
        BigInteger m = new BigInteger(sb.toString());
        return sign < 0 ? m.negate() : m;
    }

    static Value enc(BigInteger b) {
        int sign = b.signum();
        if (sign == 0) return ZERO;
        String s = b.abs().toString();
        int n = (s.length() + 3) / 4;
        Value[] limbs = new Value[n];
        int end = s.length();
        for (int i = 0; i < n; i++) {
            int start = Math.max(0, end - 4);
            limbs[i] = IntValue.gen(Integer.parseInt(s.substring(start, end)));
            end = start;
        }
        return new TupleValue(new Value[] {IntValue.gen(sign), new TupleValue(limbs)});
    }

    public static Value BAdd(Value a, Value b) { return enc(dec(a).add(dec(b))); }
    public static Value BSub(Value a, Value b) { return enc(dec(a).subtract(dec(b))); }
    public static Value BMul(Value a, Value b) { return enc(dec(a).multiply(dec(b))); }
    public static Value BCmp(Value a, Value b) { return IntValue.gen(dec(a).compareTo(dec(b))); }
    public static Value BPow(Value a, Value k) { return enc(dec(a).pow(((IntValue) k).val)); }
    public static Value BDivMod(Value a, Value b) {
        BigInteger[] qr = dec(a).divideAndRemainder(dec(b));   // a >= 0, b > 0: floor division
        return new TupleValue(new Value[] {enc(qr[0]), enc(qr[1])});
    }
    public static Value BGcd(Value a, Value b) { return enc(dec(a).gcd(dec(b))); }
    public static Value BSqrt(Value a) { return enc(dec(a).sqrt()); }
}
