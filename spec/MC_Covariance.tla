--------------------------- MODULE MC_Covariance ---------------------------
EXTENDS Covariance
CONSTANTS MaxLen
MCValues == {-1, 0, 2}
LenBound == \A s \in Slots : Len(data[s]) <= MaxLen
=============================================================================
