SPECIFICATION GSpec
CONSTANTS
  Slots = {1}
  Values <- GenValues
  Mode = "seq"
  MaxLen = 4
  MaxDepth = 0
INVARIANT Emit
CHECK_DEADLOCK FALSE
