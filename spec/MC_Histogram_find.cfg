\* C06 / C12: one histogram, every edge list, every sample
SPECIFICATION Spec
CONSTANTS
  LEN = 2
  Slots = {1}
  MaxCount = 2
  BuildLen = 4
  Fixed = FALSE
VIEW View
INVARIANTS TypeOK EdgesSorted FindIsDef BinsAreCounts VarianceRange
PROPERTIES FailedAddChangesNothing
CHECK_DEADLOCK FALSE
