\* define_moments!(T, 6): design-level check of the Pebay recurrences up to order 6
SPECIFICATION Spec
CONSTANTS
  Slots = {1, 2}
  Alphabet <- MCAlphabetTiny
  P = 6
  MaxLen = 3
CONSTRAINT LenBound
INVARIANTS TypeOK LenExact AlgIsDef ChainIsPebay VarNonNeg Sentinels
PROPERTY MergeLaws
CHECK_DEADLOCK FALSE
