SPECIFICATION Spec
CONSTANTS
  Slots = {1, 2}
  Values <- MCValues
  Weights <- MCWeights
  MaxLen = 2
CONSTRAINT LenBound
INVARIANTS TypeOK WeightedIsDef UnweightedIsDef ErrorIsDef EffectiveLenRange WeightedMeanInRange Sentinels
PROPERTIES ZeroWeightInvisible MergeLaws
CHECK_DEADLOCK FALSE
