\* one slot, add only in effect (merge/clone need two slots): every sequence up to MaxLen
SPECIFICATION Spec
CONSTANTS
  Slots = {1}
  Alphabet <- MCAlphabet
  P = 4
  MaxLen = 5
CONSTRAINT LenBound
INVARIANTS TypeOK LenExact AlgIsDef ChainIsPebay OrderFree VarNonNeg MeanInRange ShortcutsSound SampleDefs Sentinels
CHECK_DEADLOCK FALSE
