SPECIFICATION Spec
CONSTANTS
  Slots = {1, 2}
  MaxLen = 3
CONSTRAINT LenBound
INVARIANTS TypeOK ExtremeIsDef FromValueIsAdd
PROPERTY MergeLaws
CHECK_DEADLOCK FALSE
