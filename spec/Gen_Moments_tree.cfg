SPECIFICATION GSpec
CONSTANTS
  Slots = {1, 2, 3}
  Alphabet <- GenAlphabetSmall
  P = 4
  Mode = "tree"
  MaxLen = 4
  MaxDepth = 0
INVARIANT Emit
CHECK_DEADLOCK FALSE
