INIT Init
NEXT Next
