---------------------------- MODULE Gen_Quantile ----------------------------
(***************************************************************************)
(* Behaviour generator for Quantile.  One line per reachable state: the    *)
(* stream, p, and the specification's exact marker state after the last    *)
(* observation, together with the state *before* it and two flags that     *)
(* implement the tie rule of DESIGN.md 4.2:                                *)
(*   ctie  the last observation was exactly equal to an interior marker    *)
(*         height (the cell decision rests on an equality);                *)
(*   ptie  a parabolic candidate of the last step was exactly equal to a   *)
(*         neighbouring height (the acceptance test rests on an equality). *)
(* The real code takes these decisions on rounded heights; it may          *)
(* legitimately differ from the exact specification only where one of the  *)
(* flags is set and the rounded operands differ from the exact ones.       *)
(***************************************************************************)
EXTENDS Quantile, Json, TLC

CONSTANTS MaxLen

VARIABLES prevq, prevpos, ctie, ptie

gvars == <<p, cnt, q, pos, des, data, prevq, prevpos, ctie, ptie>>

GInit == Init /\ prevq = q /\ prevpos = pos /\ ctie = FALSE /\ ptie = FALSE

ParTie(hn, m, i) ==
    LET h == hn[1] n == hn[2] s == MoveDir(n, m, i) IN
    IF s = 0 THEN FALSE
    ELSE LET qn == Parabolic(h, n, i, s) IN qn = h[i - 1] \/ qn = h[i + 1]

StepPTie(h, n, m, x) ==
    LET rx == R(x)
        k1 == FirstShift(h, rx)
        h1 == Extremes(h, rx)
        n1 == [i \in Five |-> IF i >= k1 THEN n[i] + 1 ELSE n[i]]
        m1 == [i \in Five |-> RAdd(m[i], Dm(p)[i])]
        a2 == AdjustOne(<<h1, n1>>, m1, 2)
        a3 == AdjustOne(a2, m1, 3)
    IN  ParTie(<<h1, n1>>, m1, 2) \/ ParTie(a2, m1, 3) \/ ParTie(a3, m1, 4)

GNext == \E x \in Alphabet :
            /\ cnt < MaxLen
            /\ Add(x)
            /\ prevq' = q /\ prevpos' = pos
            /\ ctie' = (cnt >= 5 /\ R(x) \in {q[2], q[3], q[4]})
            /\ ptie' = (cnt >= 5 /\ StepPTie(q, pos, des, x))

GSpec == GInit /\ [][GNext]_gvars

Enc(a) == CASE a.k = "nan" -> "nan" [] a.k = "rat" -> a.v

\* small-sample details for the boundary conventions (C07)
SmallInfo ==
    IF cnt = 0 \/ cnt >= 5 THEN [whole |-> FALSE, lo |-> Zero, hi |-> Zero]
    ELSE LET h  == SmallSorted
             np == RMulI(p, cnt)
             j0 == RCeil(np)
             j  == IF j0 < 1 THEN 1 ELSE j0
         IN  [whole |-> (RIsInt(np) /\ j0 >= 1 /\ j0 < cnt),
              lo    |-> h[j],
              hi    |-> h[IF j + 1 > cnt THEN cnt ELSE j + 1]]

Emit == PrintT(ToJson([ p |-> p, data |-> data, cnt |-> cnt,
                        q |-> q, pos |-> pos, des |-> des,
                        quantile |-> Enc(QuantileOf),
                        prevq |-> prevq, prevpos |-> prevpos,
                        ctie |-> ctie, ptie |-> ptie,
                        small |-> SmallInfo ]))

GenAlphabet == {0, 1, 2, 3}
GenAlphabet01 == {0, 1}
GenAlphabet012 == {0, 1, 2}
GenAlphabetB == {0, 1, 2, 5}
GenAlphabetC == {0, 3, 4, 9}
GenPSet == {Zero, Norm(1, 4), Norm(1, 2), Norm(3, 4), One}
GenPSetMore == GenPSet \cup {Norm(1, 8), Norm(7, 8)}
T20 == 1048576
Boundaries == {Norm(k, n) : k \in 0..4, n \in 1..4} \cap {r \in {Norm(k, 12) : k \in 0..12} : TRUE}
GenPSmall == {Norm(k, 16) : k \in 0..16} \cup {Norm(1, 3), Norm(2, 3)}
             \cup {r \in {RAdd(b, Norm(s, T20)) : b \in Boundaries, s \in {-1, 1}} : RGe(r, Zero) /\ RLe(r, One)}
=============================================================================
