\* orders up to 10 within the 32-bit bound: two slots, {0,1,2}, hist mode with merges
SPECIFICATION GSpec
CONSTANTS
  Slots = {1, 2}
  Alphabet <- GenAlphabetTiny
  P = 10
  Mode = "hist"
  MaxLen = 2
  MaxDepth = 4
INVARIANT Emit
CHECK_DEADLOCK FALSE
