------------------------------ MODULE MinMax ------------------------------
(***************************************************************************)
(* Min and Max  (src/minmax.rs): f64::min / f64::max folds with +inf / -inf*)
(* as neutral start; merge = add of the other's extreme.                   *)
(*                                                                         *)
(* Observations are tokens of a small value lattice that contains the      *)
(* special floating-point values the property quantifies over:             *)
(*    "ninf" < "m1" < ("nz" = "pz" as numbers) < "p1" < "pinf",  and "nan".*)
(* The state of an estimator is the numeric rank of its extreme ("equal    *)
(* exactly, as numbers": -0.0 and 0.0 are the same number).                *)
(***************************************************************************)
EXTENDS Integers, Sequences, FiniteSets

CONSTANTS Slots

VARIABLES obj, data

vars == <<obj, data>>

Tokens == {"ninf", "m1", "nz", "pz", "p1", "pinf", "nan"}
NonNaN == Tokens \ {"nan"}

\* the infinities as integers beyond every finite value a model or a recorded trace uses
PosInf == 1073741824
NegInf == -PosInf

Num(t) == CASE t = "ninf" -> NegInf [] t = "m1" -> -1 [] t = "nz" -> 0 [] t = "pz" -> 0
            [] t = "p1" -> 1 [] t = "pinf" -> PosInf

IMin(a, b) == IF a <= b THEN a ELSE b
IMax(a, b) == IF a >= b THEN a ELSE b

NewObj == [mn |-> PosInf, mx |-> NegInf]       \* Min::new(), Max::new()

\* f64::min / f64::max ignore a NaN operand; r is the numeric value of a non-NaN observation
ObjAddR(o, isnan, r) == IF isnan THEN o
                        ELSE [mn |-> IMin(o.mn, r), mx |-> IMax(o.mx, r)]
ObjAdd(o, t) == ObjAddR(o, t = "nan", IF t = "nan" THEN 0 ELSE Num(t))
\* merge = self.add(other.x)
ObjMerge(a, b) == [mn |-> IMin(a.mn, b.mn), mx |-> IMax(a.mx, b.mx)]

Init == /\ obj  = [s \in Slots |-> NewObj]
        /\ data = [s \in Slots |-> <<>>]

Add(s, t) ==
    /\ obj'  = [obj  EXCEPT ![s] = ObjAdd(@, t)]
    /\ data' = [data EXCEPT ![s] = Append(@, t)]
Merge(d, s) ==
    /\ d # s
    /\ obj'  = [obj  EXCEPT ![d] = ObjMerge(@, obj[s])]
    /\ data' = [data EXCEPT ![d] = @ \o data[s]]
Clone(d, s) ==
    /\ d # s
    /\ obj'  = [obj  EXCEPT ![d] = obj[s]]
    /\ data' = [data EXCEPT ![d] = data[s]]
Fresh(s) ==
    /\ obj'  = [obj  EXCEPT ![s] = NewObj]
    /\ data' = [data EXCEPT ![s] = <<>>]
\* Min::from_value(v), Max::from_value(v) for a non-NaN v: an estimator that has already seen v
FromValue(s, t) ==
    /\ t # "nan"
    /\ obj'  = [obj  EXCEPT ![s] = [mn |-> Num(t), mx |-> Num(t)]]
    /\ data' = [data EXCEPT ![s] = <<t>>]
Checkpoint(s) == UNCHANGED vars

Next == \/ \E s \in Slots, t \in Tokens : Add(s, t)
        \/ \E s \in Slots, t \in NonNaN : FromValue(s, t)
        \/ \E d, s \in Slots : Merge(d, s) \/ Clone(d, s)
        \/ \E s \in Slots : Fresh(s) \/ Checkpoint(s)

Spec == Init /\ [][Next]_vars

(***************************************************************************)
(* C14: the extreme is a function of the multiset of non-NaN observations  *)
(***************************************************************************)
Ranks(d) == {Num(d[i]) : i \in {j \in 1..Len(d) : d[j] # "nan"}}
SetMin(S) == CHOOSE m \in S : \A x \in S : m <= x
SetMax(S) == CHOOSE m \in S : \A x \in S : m >= x

RankSet == {NegInf, -1, 0, 1, PosInf}
TypeOK == \A s \in Slots : obj[s].mn \in RankSet /\ obj[s].mx \in RankSet /\ data[s] \in Seq(Tokens)

ExtremeIsDef == \A s \in Slots :
    LET R == Ranks(data[s]) IN
    /\ obj[s].mn = IF R = {} THEN PosInf ELSE SetMin(R)
    /\ obj[s].mx = IF R = {} THEN NegInf ELSE SetMax(R)

\* from_value(v) == new(); add(v)
FromValueIsAdd == \A t \in NonNaN : [mn |-> Num(t), mx |-> Num(t)] = ObjAdd(NewObj, t)

\* C11: merging the empty estimator is an identity in both directions
MergeLaws ==
    [][\A d, s \in Slots :
         (d # s /\ obj' = [obj EXCEPT ![d] = ObjMerge(obj[d], obj[s])]) =>
            /\ obj'[s] = obj[s]
            /\ obj[s] = NewObj => obj'[d] = obj[d]
            /\ obj[d] = NewObj => obj'[d] = obj[s]]_vars
=============================================================================
