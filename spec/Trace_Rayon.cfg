SPECIFICATION TSpec
INVARIANT Inv
POSTCONDITION Accepted
CHECK_DEADLOCK FALSE
