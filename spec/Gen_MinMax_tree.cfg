SPECIFICATION GSpec
CONSTANTS
  Slots = {1,2,3}
  Mode = "tree"
  MaxLen = 3
  MaxDepth = 0
INVARIANT Emit
CHECK_DEADLOCK FALSE
