SPECIFICATION GSpec
CONSTANTS
  Slots = {1}
  Mode = "seq"
  MaxLen = 5
  MaxDepth = 0
INVARIANT Emit
CHECK_DEADLOCK FALSE
