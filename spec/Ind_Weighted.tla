---------------------------- MODULE Ind_Weighted ----------------------------
(***************************************************************************)
(* Unbounded algebraic layer (Apalache) for the weighted mean of           *)
(* WeightedMean (src/weighted_mean.rs, West's update and the weighted      *)
(* merge of Weighted.tla), with the running average kept as a fraction     *)
(* u / d (d > 0) so that everything is integer arithmetic, checked as an   *)
(* INDUCTIVE invariant over unbounded integers: every number of            *)
(* observations, every value, every non-negative weight, every pair of     *)
(* summaries.                                                              *)
(*                                                                         *)
(* An estimator is  w = sum of weights,  x = sum of weight*value (ghost),  *)
(* and the stored average u/d.                                             *)
(* Code:  weight_sum += wt;  if weight_sum > 0 (the C08 repair: no update  *)
(*        while the total weight is still zero)                            *)
(*            avg' = avg + (wt / weight_sum') * (v - avg)                   *)
(*   <=>  u' * (d * w') = d' * (u * w' + wt * (v * d - u))                  *)
(* Merge: avg' = (wa * avga + wb * avgb) / (wa + wb)                        *)
(*   <=>  u' * (da * db * (wa + wb)) = d' * (wa * ua * db + wb * ub * da)   *)
(* Invariant:  w > 0  =>  u * w = x * d     (avg = sum w v / sum w)         *)
(*             w = 0  =>  x = 0                                            *)
(*   apalache-mc check --init=IndInit --inv=IndInv --length=1 Ind_Weighted.tla *)
(***************************************************************************)
EXTENDS Integers

VARIABLES
    \* @type: Int;
    wa,
    \* @type: Int;
    xa,
    \* @type: Int;
    ua,
    \* @type: Int;
    da,
    \* @type: Int;
    wb,
    \* @type: Int;
    xb,
    \* @type: Int;
    ub,
    \* @type: Int;
    db

Def(w, x, u, d) == /\ w >= 0 /\ d > 0
                   /\ (w > 0 => u * w = x * d)
                   /\ (w = 0 => x = 0)

IndInv == Def(wa, xa, ua, da) /\ Def(wb, xb, ub, db)

IndInit ==
    /\ wa \in Int /\ xa \in Int /\ ua \in Int /\ da \in Int
    /\ wb \in Int /\ xb \in Int /\ ub \in Int /\ db \in Int
    /\ IndInv

\* WeightedMean::new(): weight_sum = 0, weighted_avg = 0
Init == wa = 0 /\ xa = 0 /\ ua = 0 /\ da = 1 /\ wb = 0 /\ xb = 0 /\ ub = 0 /\ db = 1

\* the new average as any fraction un/dn equal to avg + (wt/w')(v - avg)
West(w, u, d, wt, v, un, dn) ==
    /\ dn > 0
    /\ un * (d * (w + wt)) = dn * (u * (w + wt) + wt * (v * d - u))

AddA == \E v \in Int, wt \in Int :
    /\ wt >= 0
    /\ wa' = wa + wt /\ xa' = xa + wt * v
    /\ IF wa + wt = 0 THEN ua' = ua /\ da' = da
       ELSE \E un \in Int, dn \in Int : West(wa, ua, da, wt, v, un, dn) /\ ua' = un /\ da' = dn
    /\ UNCHANGED <<wb, xb, ub, db>>

AddB == \E v \in Int, wt \in Int :
    /\ wt >= 0
    /\ wb' = wb + wt /\ xb' = xb + wt * v
    /\ IF wb + wt = 0 THEN ub' = ub /\ db' = db
       ELSE \E un \in Int, dn \in Int : West(wb, ub, db, wt, v, un, dn) /\ ub' = un /\ db' = dn
    /\ UNCHANGED <<wa, xa, ua, da>>

\* a.merge(&b) with the code's early returns (is_empty() is weight_sum == 0)
MergeAB ==
    /\ UNCHANGED <<wb, xb, ub, db>>
    /\ IF wb = 0 THEN UNCHANGED <<wa, xa, ua, da>>
       ELSE IF wa = 0 THEN wa' = wb /\ xa' = xb /\ ua' = ub /\ da' = db
       ELSE /\ wa' = wa + wb /\ xa' = xa + xb
            /\ \E un \in Int, dn \in Int :
                 /\ dn > 0
                 /\ un * (da * db * (wa + wb)) = dn * (wa * ua * db + wb * ub * da)
                 /\ ua' = un /\ da' = dn

Next == AddA \/ AddB \/ MergeAB \/ UNCHANGED <<wa, xa, ua, da, wb, xb, ub, db>>
=============================================================================
