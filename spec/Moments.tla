----------------------------- MODULE Moments -----------------------------
(***************************************************************************)
(* Mean / Variance / Skewness / Kurtosis and define_moments!(T, P).        *)
(*                                                                         *)
(* Every slot holds one estimator object.  Its state is carried twice:     *)
(*   - "chain": the fields of the nested structs Kurtosis{Skewness{        *)
(*     Variance{Mean{avg,n},sum_2},sum_3},sum_4}, updated by a line-by-    *)
(*     line transcription of add_inner / merge of src/moments/*.rs         *)
(*     (Welford, Terriberry, Chan);                                        *)
(*   - "peb": the fields {n, avg, m[2..P]} of a define_moments! struct,    *)
(*     updated by a transcription of the macro's add / merge (Pebay).      *)
(* plus the ghost sequence `data` of every observation the object has      *)
(* absorbed, in concatenation order.  All arithmetic is exact (Rat), so    *)
(* the invariants say: whatever the history of add / merge / clone, the    *)
(* algorithmic state is a function of the ghost data, namely the textbook  *)
(* statistic.  The harness then checks that the f64 code agrees with these *)
(* exact values to within the error envelope.                              *)
(***************************************************************************)
EXTENDS Integers, Sequences, FiniteSets, Rat, Exact

CONSTANTS Slots,      \* set of object names
          Alphabet,   \* set of integer observations (the lattice)
          P           \* highest order carried by the Pebay transcription (>= 4)

VARIABLES obj, data

vars == <<obj, data>>

Orders == 2..P

(***************************************************************************)
(* Object state                                                            *)
(***************************************************************************)
NewChain == [n |-> 0, avg |-> Zero, s2 |-> Zero, s3 |-> Zero, s4 |-> Zero]
NewPeb   == [n |-> 0, avg |-> Zero, m |-> [p \in Orders |-> Zero]]
NewObj   == [chain |-> NewChain, peb |-> NewPeb]

(***************************************************************************)
(* Kurtosis::add  (src/moments/kurtosis.rs, skewness.rs, variance.rs,      *)
(* mean.rs).  Note the order: sum_4 uses the OLD sum_3 and sum_2, sum_3    *)
(* the OLD sum_2.                                                          *)
(***************************************************************************)
ChainAdd(c, x) ==
    LET delta   == RSub(R(x), c.avg)                  \* x - self.avg.avg.avg.avg
        n       == c.n + 1                            \* self.increment()
        dn      == RDivI(delta, n)                    \* delta / n
        term    == RMulI(RMul(delta, dn), n - 1)      \* delta * delta_n * (n - 1)
        dn2     == RMul(dn, dn)
        s4      == RAdd(c.s4,
                     RAdd(RMulI(RMul(term, dn2), n * n - 3 * n + 3),
                     RSub(RMulI(RMul(dn2, c.s2), 6),
                          RMulI(RMul(dn, c.s3), 4))))
        s3      == RAdd(c.s3,
                     RSub(RMulI(RMul(term, dn), n - 2),
                          RMulI(RMul(dn, c.s2), 3)))
        s2      == RAdd(c.s2, RMulI(RMul(dn, dn), n * (n - 1)))
    IN  [n |-> n, avg |-> RAdd(c.avg, dn), s2 |-> s2, s3 |-> s3, s4 |-> s4]

(***************************************************************************)
(* Kurtosis::merge (Terriberry / Chan).  Early returns exactly as the code.*)
(***************************************************************************)
ChainMerge(a, b) ==
    IF b.n = 0 THEN a
    ELSE IF a.n = 0 THEN b
    ELSE
    LET ls    == a.n
        lo    == b.n
        lt    == ls + lo
        delta == RSub(b.avg, a.avg)
        dn    == RDivI(delta, lt)
        dn2   == RMul(dn, dn)
        s4    == RAdd(a.s4, RAdd(b.s4,
                   RAdd(RMulI(RMul(RMul(delta, dn), dn2), ls * lo * (ls * ls - ls * lo + lo * lo)),
                   RAdd(RMulI(RMul(dn2, RAdd(RMulI(b.s2, ls * ls), RMulI(a.s2, lo * lo))), 6),
                        RMulI(RMul(dn, RSub(RMulI(b.s3, ls), RMulI(a.s3, lo))), 4)))))
        s3    == RAdd(a.s3, RAdd(b.s3,
                   RAdd(RMulI(RMul(RMul(delta, dn), dn), ls * lo * (ls - lo)),
                        RMulI(RMul(dn, RSub(RMulI(b.s2, ls), RMulI(a.s2, lo))), 3))))
        s2    == RAdd(a.s2, RAdd(b.s2, RDivI(RMulI(RMul(delta, delta), ls * lo), lt)))
        avg   == RDivI(RAdd(RMulI(a.avg, ls), RMulI(b.avg, lo)), lt)
    IN  [n |-> lt, avg |-> avg, s2 |-> s2, s3 |-> s3, s4 |-> s4]

(***************************************************************************)
(* define_moments!: IterBinomial, add, merge  (src/moments/mod.rs)         *)
(***************************************************************************)
\* IterBinomial: a_0 = 1, a_k = a_{k-1} * (n - k + 1) / k  (integer division, exact)
RECURSIVE Binom(_, _)
Binom(n, k) == IF k = 0 THEN 1 ELSE (Binom(n, k - 1) * (n - k + 1)) \div k

\* sum_{k=lo}^{hi} f(k) over rationals
RECURSIVE RSumRange(_, _, _)
RSumRange(f(_), lo, hi) == IF lo > hi THEN Zero ELSE RAdd(f(lo), RSumRange(f, lo + 1, hi))

PebAdd(o, x) ==
    LET n       == o.n + 1
        delta   == RSub(R(x), o.avg)
        overn   == Norm(1, n)
        factor1 == RNeg(overn)
        factor2 == RMulI(overn, n - 1)
        fcoeff  == RNeg(RMul(delta, overn))
        prev    == o.m
        \* after p - 1 passes through the loop body:
        term1(p)  == RMul(RMulI(RNeg(overn), n - 1), RPow(factor1, p - 1))
        term2(p)  == RMul(RMulI(overn, n - 1), RPow(factor2, p - 1))
        cdelta(p) == RPow(delta, p)
        inner(p)  == LET f(k) == RMul(RMulI(prev[p - k], Binom(p, k)), RPow(fcoeff, k))
                     IN  RSumRange(f, 1, p - 2)
    IN  [n   |-> n,
         avg |-> RAdd(o.avg, RDivI(delta, n)),
         m   |-> [p \in Orders |->
                    RAdd(prev[p], RAdd(RMul(RAdd(term1(p), term2(p)), cdelta(p)), inner(p)))]]

PebMerge(a, b) ==
    IF b.n = 0 THEN a
    ELSE IF a.n = 0 THEN b
    ELSE
    LET na     == a.n
        nb     == b.n
        n      == na + nb
        delta  == RSub(b.avg, a.avg)
        naovn  == Norm(na, n)
        nbovn  == Norm(nb, n)
        fa     == RNeg(RMul(nbovn, delta))
        fb     == RMul(naovn, delta)
        terma(p) == RMulI(RPow(fa, p), na)
        termb(p) == RMulI(RPow(fb, p), nb)
        inner(p) == LET f(k) == RMul(RMulI(RPow(delta, k), Binom(p, k)),
                                     RAdd(RMul(a.m[p - k], RPow(RNeg(nbovn), k)),
                                          RMul(b.m[p - k], RPow(naovn, k))))
                    IN  RSumRange(f, 1, p - 2)
    IN  [n   |-> n,
         avg |-> RAdd(a.avg, RMul(nbovn, delta)),
         m   |-> [p \in Orders |->
                    RAdd(a.m[p], RAdd(b.m[p], RAdd(terma(p), RAdd(termb(p), inner(p)))))]]

ObjAdd(o, x)   == [chain |-> ChainAdd(o.chain, x),      peb |-> PebAdd(o.peb, x)]
ObjMerge(a, b) == [chain |-> ChainMerge(a.chain, b.chain), peb |-> PebMerge(a.peb, b.peb)]

(***************************************************************************)
(* Actions: one per public call.                                           *)
(***************************************************************************)
Init == /\ obj  = [s \in Slots |-> NewObj]
        /\ data = [s \in Slots |-> <<>>]

Add(s, x) ==
    /\ obj'  = [obj  EXCEPT ![s] = ObjAdd(@, x)]
    /\ data' = [data EXCEPT ![s] = Append(@, x)]

\* d.merge(&s): the source is only read
Merge(d, s) ==
    /\ d # s
    /\ obj'  = [obj  EXCEPT ![d] = ObjMerge(@, obj[s])]
    /\ data' = [data EXCEPT ![d] = @ \o data[s]]

\* d = s.clone()
Clone(d, s) ==
    /\ d # s
    /\ obj'  = [obj  EXCEPT ![d] = obj[s]]
    /\ data' = [data EXCEPT ![d] = data[s]]

\* s = T::new()   (also Default::default())
Fresh(s) ==
    /\ obj'  = [obj  EXCEPT ![s] = NewObj]
    /\ data' = [data EXCEPT ![s] = <<>>]

\* serde round trip  s = from_str(to_string(&s)): invisible
Checkpoint(s) == UNCHANGED vars

Next == \/ \E s \in Slots, x \in Alphabet : Add(s, x)
        \/ \E d, s \in Slots : Merge(d, s) \/ Clone(d, s)
        \/ \E s \in Slots : Fresh(s) \/ Checkpoint(s)

Spec == Init /\ [][Next]_vars

(***************************************************************************)
(* Accessors.  A result is a record: [k |-> "nan"], [k |-> "rat", v |-> r],*)
(* [k |-> "root", s |-> sign, v |-> r] meaning sign * sqrt(r), or          *)
(* [k |-> "panic"].                                                        *)
(***************************************************************************)
NaN       == [k |-> "nan"]
Panic     == [k |-> "panic"]
Val(r)    == [k |-> "rat", v |-> r]
Root(s, r) == IF s = 0 \/ RIsZero(r) THEN Val(Zero) ELSE [k |-> "root", s |-> s, v |-> r]

\* --- chain family (Mean, Variance, Skewness, Kurtosis)
CLen(c)     == c.n
CIsEmpty(c) == c.n = 0
CMean(c)    == IF c.n > 0 THEN Val(c.avg) ELSE NaN
CPopVar(c)  == IF c.n = 0 THEN NaN ELSE Val(RDivI(c.s2, c.n))
CSampleVar(c) == IF c.n < 2 THEN NaN ELSE Val(RDivI(c.s2, c.n - 1))
CVarOfMean(c) == IF c.n = 0 THEN NaN ELSE IF c.n = 1 THEN Val(Zero)
                 ELSE Val(RDivI(RDivI(c.s2, c.n - 1), c.n))
CError(c)   == IF c.n = 0 THEN NaN ELSE IF c.n = 1 THEN Val(Zero)
                 ELSE Root(1, RDivI(RDivI(c.s2, c.n - 1), c.n))
\* sqrt(n) * sum_3 / sqrt(sum_2^3)
CSkewness(c) == IF c.n = 0 THEN NaN
                ELSE IF RIsZero(c.s3) THEN Val(Zero)
                ELSE IF RIsZero(c.s2) THEN NaN   \* unreachable: s3 # 0 => s2 # 0 (checked)
                ELSE Root(RSign(c.s3), RDiv(RMulI(RMul(c.s3, c.s3), c.n), RPow(c.s2, 3)))
CKurtosis(c) == IF c.n = 0 THEN NaN
                ELSE IF RIsZero(c.s4) THEN Val(Zero)
                ELSE IF RIsZero(c.s2) THEN NaN   \* unreachable (checked)
                ELSE Val(RSub(RDiv(RMulI(c.s4, c.n), RMul(c.s2, c.s2)), R(3)))

\* --- define_moments! family
PLen(o)   == o.n
PMean(o)  == IF o.n > 0 THEN Val(o.avg) ELSE NaN
PCentral(o, p) == IF p = 0 THEN Val(One) ELSE IF p = 1 THEN Val(Zero)
                  ELSE IF o.n > 0 THEN Val(RDivI(o.m[p], o.n)) ELSE NaN
\* central_moment(p) / sqrt(variance)^p ; asserts variance != 0 for p >= 3
PStandardized(o, p) ==
    IF p = 0 THEN Val(R(o.n)) ELSE IF p = 1 THEN Val(Zero) ELSE IF p = 2 THEN Val(One)
    ELSE IF o.n = 0 THEN NaN            \* NaN != 0, no panic; NaN / NaN
    ELSE IF RIsZero(o.m[2]) THEN Panic
    ELSE LET var == RDivI(o.m[2], o.n)
             cm  == RDivI(o.m[p], o.n)
         IN  IF p % 2 = 0 THEN Val(RDiv(cm, RPow(var, p \div 2)))
             ELSE Root(RSign(cm), RDiv(RMul(cm, cm), RPow(var, p)))
PSampleVar(o) == IF o.n < 2 THEN NaN ELSE Val(RDivI(o.m[2], o.n - 1))
\* adjusted Fisher-Pearson  sqrt(n(n-1))/(n-2) * m3 / m2^1.5   (m_k = k-th central moment)
PSampleSkew(o) ==
    IF o.n = 0 THEN NaN ELSE IF o.n = 1 THEN Val(Zero)
    ELSE IF RIsZero(o.m[2]) THEN NaN      \* 0/0 : outside the property's quantifier
    ELSE IF o.n = 2 THEN Val(Zero)        \* m3 = 0 for two points (checked)
    ELSE LET n  == o.n
             m2 == RDivI(o.m[2], n)
             m3 == RDivI(o.m[3], n)
         IN  Root(RSign(m3),
                  RMul(Norm(n * (n - 1), (n - 2) * (n - 2)), RDiv(RMul(m3, m3), RPow(m2, 3))))
\* (n-1)/((n-2)(n-3)) * ((n+1)(m4/m2^2 - 3) + 6)
PSampleExKurt(o) ==
    IF o.n < 4 THEN NaN
    ELSE IF RIsZero(o.m[2]) THEN NaN      \* 0/0
    ELSE LET n  == o.n
             m2 == RDivI(o.m[2], n)
             m4 == RDivI(o.m[4], n)
             g2 == RSub(RDiv(m4, RMul(m2, m2)), R(3))
         IN  Val(RMul(Norm(n - 1, (n - 2) * (n - 3)), RAdd(RMulI(g2, n + 1), R(6))))

(***************************************************************************)
(* Invariants                                                              *)
(***************************************************************************)
TypeOK ==
    \A s \in Slots :
        /\ obj[s].chain.n \in Nat /\ obj[s].peb.n \in Nat
        /\ IsRat(obj[s].chain.avg) /\ IsRat(obj[s].chain.s2)
        /\ IsRat(obj[s].chain.s3) /\ IsRat(obj[s].chain.s4)
        /\ IsRat(obj[s].peb.avg) /\ \A p \in Orders : IsRat(obj[s].peb.m[p])
        /\ data[s] \in Seq(Alphabet)

\* C01 C02 C11: len() is the number of observations absorbed
LenExact ==
    \A s \in Slots : /\ obj[s].chain.n = Len(data[s])
                     /\ obj[s].peb.n   = Len(data[s])

\* C01..C04: the algorithmic state is the textbook statistic of the ghost data
AlgIsDef ==
    \A s \in Slots :
        LET d == data[s] c == obj[s].chain o == obj[s].peb IN
        IF d = <<>> THEN obj[s] = NewObj
        ELSE /\ c.avg = MeanOf(d) /\ o.avg = MeanOf(d)
             /\ c.s2 = CentralSum(d, 2) /\ c.s3 = CentralSum(d, 3) /\ c.s4 = CentralSum(d, 4)
             /\ \A p \in Orders : o.m[p] = CentralSum(d, p)

\* C04: the general macro agrees with the hand-written estimators
ChainIsPebay ==
    \A s \in Slots :
        LET c == obj[s].chain o == obj[s].peb IN
        /\ c.n = o.n /\ c.avg = o.avg
        /\ c.s2 = o.m[2] /\ c.s3 = o.m[3] /\ c.s4 = o.m[4]

\* C01 C02: the state depends only on the multiset absorbed, not on order or history
RECURSIVE FoldAdd(_, _)
FoldAdd(o, s) == IF s = <<>> THEN o ELSE FoldAdd(ObjAdd(o, Head(s)), Tail(s))
OrderFree == \A s \in Slots : obj[s] = FoldAdd(NewObj, Sorted(data[s]))

\* C17
VarNonNeg == \A s \in Slots : /\ RSign(obj[s].chain.s2) >= 0
                              /\ \A p \in Orders : p % 2 = 0 => RSign(obj[s].peb.m[p]) >= 0
MeanInRange ==
    \A s \in Slots : data[s] # <<>> =>
        /\ RLe(R(MinOf(data[s])), obj[s].chain.avg)
        /\ RLe(obj[s].chain.avg, R(MaxOf(data[s])))

\* guards inside the accessors that are claimed unreachable
ShortcutsSound ==
    \A s \in Slots : LET c == obj[s].chain IN
        RIsZero(c.s2) => (RIsZero(c.s3) /\ RIsZero(c.s4))

\* C10: bias-corrected statistics against their textbook definitions on the ghost data
SampleDefs ==
    \A s \in Slots :
        LET d == data[s] n == Len(d) c == obj[s].chain o == obj[s].peb
            M(k) == RDivI(CentralSum(d, k), n) IN
        /\ n >= 2 => /\ CSampleVar(c) = Val(RMul(M(2), Norm(n, n - 1)))
                     /\ PSampleVar(o) = CSampleVar(c)
                     /\ CVarOfMean(c) = Val(RDivI(RMul(M(2), Norm(n, n - 1)), n))
        /\ n < 2  => CSampleVar(c) = NaN /\ PSampleVar(o) = NaN
        /\ n = 2 /\ ~IsConstant(d) => RIsZero(o.m[3])
        /\ (n >= 3 /\ ~IsConstant(d)) =>
               LET g1sq == RMul(Norm(n * (n - 1), (n - 2) * (n - 2)),
                                RDiv(RMul(M(3), M(3)), RPow(M(2), 3)))
               IN  PSampleSkew(o) = Root(RSign(M(3)), g1sq)
        /\ (n >= 4 /\ ~IsConstant(d)) =>
               PSampleExKurt(o) =
                  Val(RMul(Norm(n - 1, (n - 2) * (n - 3)),
                           RAdd(RMulI(RSub(RDiv(M(4), RMul(M(2), M(2))), R(3)), n + 1), R(6))))
        /\ n < 4 => PSampleExKurt(o) = NaN

\* C16: the sentinel table
Sentinels ==
    \A s \in Slots :
        LET d == data[s] n == Len(d) c == obj[s].chain o == obj[s].peb IN
        /\ n = 0 => /\ CMean(c) = NaN /\ CPopVar(c) = NaN /\ CSampleVar(c) = NaN
                    /\ CVarOfMean(c) = NaN /\ CError(c) = NaN
                    /\ CSkewness(c) = NaN /\ CKurtosis(c) = NaN
                    /\ PMean(o) = NaN /\ PSampleSkew(o) = NaN
                    /\ \A p \in Orders : PCentral(o, p) = NaN
        /\ PCentral(o, 0) = Val(One) /\ PCentral(o, 1) = Val(Zero)
        /\ PStandardized(o, 0) = Val(R(n)) /\ PStandardized(o, 1) = Val(Zero)
        /\ PStandardized(o, 2) = Val(One)
        /\ n = 1 => /\ CSampleVar(c) = NaN /\ PSampleSkew(o) = Val(Zero)
        /\ (n >= 1 /\ IsConstant(d)) =>
               /\ CMean(c) = Val(R(d[1])) /\ PMean(o) = Val(R(d[1]))
               /\ CPopVar(c) = Val(Zero) /\ CVarOfMean(c) = Val(Zero) /\ CError(c) = Val(Zero)
               /\ CSkewness(c) = Val(Zero) /\ CKurtosis(c) = Val(Zero)
               /\ \A p \in 1..P : PCentral(o, p) = Val(Zero)
               /\ \A p \in 3..P : PStandardized(o, p) = Panic

(***************************************************************************)
(* Action properties (C11, C18)                                            *)
(***************************************************************************)
\* merging an empty source changes nothing; merging into an empty destination copies;
\* lengths add; the source is never modified.  Stated over every step.
MergeLaws ==
    [][\A d, s \in Slots :
         (d # s /\ obj' = [obj EXCEPT ![d] = ObjMerge(obj[d], obj[s])]
                /\ data' = [data EXCEPT ![d] = data[d] \o data[s]]) =>
            /\ obj'[d].chain.n = obj[d].chain.n + obj[s].chain.n
            /\ obj'[d].peb.n   = obj[d].peb.n + obj[s].peb.n
            /\ obj'[s] = obj[s]
            /\ data[s] = <<>> => obj'[d] = obj[d]
            /\ data[d] = <<>> => obj'[d] = obj[s]]_vars
=============================================================================
