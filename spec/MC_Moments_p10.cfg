\* define_moments!(T, 10): design-level check of the Pebay recurrences up to order 10
SPECIFICATION Spec
CONSTANTS
  Slots = {1, 2}
  Alphabet <- MCAlphabetTiny
  P = 10
  MaxLen = 2
CONSTRAINT LenBound
INVARIANTS TypeOK LenExact AlgIsDef ChainIsPebay VarNonNeg Sentinels
PROPERTY MergeLaws
CHECK_DEADLOCK FALSE
