--------------------------- MODULE Trace_Quantile ---------------------------
(***************************************************************************)
(* Trace specification for Quantile: validates traces recorded from the    *)
(* real code (implementation -> specification), of any length, against the *)
(* integer skeleton of the P-square algorithm and the C15 invariants.      *)
(*                                                                         *)
(* One JSON event per API call, logged at the call's return:               *)
(*   {"op":"new","p32":k}               Quantile::new(k/32)                *)
(*   {"op":"small","cnt":c}             add() while fewer than five are in *)
(*   {"op":"add_nd", ...}               as "add", for p = k/10              *)
(*   every add also carries twin_equal: a second estimator that is          *)
(*   serialised and restored (serde) before every observation has exactly   *)
(*   the same serialised state and estimate (C18)                           *)
(*   {"op":"add","rank":r,"pos":[..],"cnt":c,"minok":b,"maxok":b,          *)
(*         "sorted":b,"inrange":b,"len":c}                                 *)
(*        r  = number of marker heights <= x before the call (from the     *)
(*             public serde form), pos = marker positions after the call,  *)
(*        the booleans: first/last marker equal the running min/max,       *)
(*        heights non-decreasing, min <= quantile() <= max.                *)
(* The specification recomputes the positions from its own state with the  *)
(* operators of Quantile.tla (PosStep, MoveDir) and accepts the event only *)
(* if they equal the logged ones and every invariant flag is true.         *)
(***************************************************************************)
EXTENDS Integers, Sequences, FiniteSets, Rat, TLC, Json, IOUtils

Rec == ndJsonDeserialize(IOEnv.TRACE)

\* Quantile.tla's operators without its variables
Q == INSTANCE Quantile WITH Alphabet <- {0}, PSet <- {Zero},
                            p <- Zero, cnt <- 0, q <- <<>>, pos <- <<>>, des <- <<>>, data <- <<>>

VARIABLES l,      \* next event
          pp,     \* p as a rational
          cnt, pos, des

tvars == <<l, pp, cnt, pos, des>>

TInit == /\ l = 1 /\ pp = Zero /\ cnt = 0
         /\ pos = <<1, 2, 3, 4, 5>> /\ des = Q!Des0(Zero)

Ev == Rec[l]
IsEvent(name) == l <= Len(Rec) /\ Ev.op = name /\ l' = l + 1

TNew == /\ IsEvent("new")
        /\ pp' = Norm(Ev.p32, 32) /\ cnt' = 0
        /\ pos' = <<1, 2, 3, 4, 5>> /\ des' = Q!Des0(Norm(Ev.p32, 32))

TSmall == /\ IsEvent("small")
          /\ cnt < 5 /\ cnt' = cnt + 1 /\ Ev.cnt = cnt'
          /\ Ev.len = cnt' /\ Ev.inrange
          /\ Ev.twin_equal                             \* C18: Checkpoint is a stuttering step
          /\ UNCHANGED <<pp, pos, des>>

\* first marker whose position is incremented, from the number of heights <= x
FirstShiftOfRank(r) == IF r = 0 THEN 2 ELSE IF r >= 4 THEN 5 ELSE r + 1

TAdd == /\ IsEvent("add")
        /\ cnt >= 5 /\ cnt' = cnt + 1 /\ Ev.cnt = cnt' /\ Ev.len = cnt'
        /\ des' = [i \in 1..5 |-> RAdd(des[i], Q!Dm(pp)[i])]
        /\ pos' = Q!PosStep(pos, des', FirstShiftOfRank(Ev.rank))
        /\ pos' = Ev.pos                              \* the code moved exactly these markers
        /\ pos'[1] = 1 /\ pos'[5] = cnt'              \* extreme markers at positions 1 and n
        /\ Ev.minok /\ Ev.maxok /\ Ev.sorted /\ Ev.inrange
        /\ Ev.twin_equal
        /\ UNCHANGED pp

\* p not exactly representable (k/10): the code's rounded desired positions may legitimately
\* differ from the exact ones at a tie, so the positions are taken from the log and only the
\* bookkeeping, the C15 invariants and the serde twin (C18) are required
TAddND == /\ IsEvent("add_nd")
          /\ cnt >= 5 /\ cnt' = cnt + 1 /\ Ev.cnt = cnt' /\ Ev.len = cnt'
          /\ pos' = Ev.pos /\ des' = des
          /\ pos'[1] = 1 /\ pos'[5] = cnt'
          /\ \A i \in 1..4 : pos'[i] < pos'[i + 1]
          /\ \A i \in 2..4 : pos'[i] - pos[i] \in {-1, 0, 1, 2}
          /\ Ev.minok /\ Ev.maxok /\ Ev.sorted /\ Ev.inrange
          /\ Ev.twin_equal
          /\ UNCHANGED pp

\* Quantile::new(p) for p outside [0,1] or NaN must panic (C15)
TNewInvalid == /\ IsEvent("new_invalid") /\ Ev.panicked
               /\ UNCHANGED <<pp, cnt, pos, des>>

\* Quantile::new(p) for a valid p - down to the smallest subnormal, up to the predecessor of 1 - must not
\* panic, the estimator is empty and p() returns exactly the p given (C15)
TNewValid == /\ IsEvent("new_valid") /\ ~Ev.panicked /\ Ev.p_exact /\ Ev.len = 0 /\ Ev.empty
             /\ UNCHANGED <<pp, cnt, pos, des>>

TNext == TNew \/ TSmall \/ TAdd \/ TAddND \/ TNewInvalid \/ TNewValid

TSpec == TInit /\ [][TNext]_tvars

\* accepted iff every event was consumed
Accepted ==
    LET d == TLCGet("stats").diameter IN
    IF d - 1 = Len(Rec) THEN PrintT("TRACE-ACCEPTED " \o ToString(Len(Rec)))
    ELSE PrintT("TRACE-REJECTED first unmatched event " \o ToString(d) \o ": "
                \o (IF d <= Len(Rec) THEN ToJson(Rec[d]) ELSE "none"))
=============================================================================
