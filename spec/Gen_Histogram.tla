--------------------------- MODULE Gen_Histogram ---------------------------
(***************************************************************************)
(* Behaviour generators for the histogram family.                          *)
(*  Mode "build": one state per input list offered to from_ranges, with    *)
(*                the specification's verdict (C12).                       *)
(*  Mode "find":  one state per valid edge vector, with the bin of every   *)
(*                sample of the lattice (C06).                             *)
(*  Mode "cw":    with_const_width(start, end) on small integer pairs with *)
(*                the exact rational edges (C12).                          *)
(*  Mode "hist":  histories of build / add / merge / += / *= / reset /     *)
(*                clone / checkpoint over the slots, with the exact bins   *)
(*                and views after every step (C06 C11 C13 C17 C18).        *)
(***************************************************************************)
EXTENDS Histogram, Json, TLC

CONSTANTS Mode, BuildLen, MaxDepth, MaxCount

VARIABLES log,      \* hist mode: the calls so far
          tbl       \* build / find / cw modes: the case of this state

gvars == <<hist, ghost, last, log, tbl>>

RECURSIVE ListsOfLen(_)
ListsOfLen(n) == IF n = 0 THEN {<<>>} ELSE {Append(l, t) : l \in ListsOfLen(n - 1), t \in Tokens}
\* every list up to LEN + 1, then three kinds of surplus tail on every full-length list
Tails == {<<>>, <<"nan">>, <<"ninf">>, <<"pinf">>, <<"nan", "nan">>, <<"ninf", "nan">>}
\* (guarded by Mode: TLC evaluates constant definitions eagerly, and 9^(LEN+1) lists are only
\* affordable for the small LEN of the build / find modes)
BuildCases == IF Mode # "build" THEN {}
              ELSE UNION {ListsOfLen(n) : n \in 0..BuildLen}
                   \cup {l \o t : l \in ListsOfLen(LEN + 1), t \in Tails}
ValidEdges == IF Mode # "find" THEN {} ELSE {l \in ListsOfLen(LEN + 1) : FromRanges(l).ok}

FixedLists == IF LEN = 2
              THEN {<<"pz", "one", "two">>, <<"nz", "one", "two">>, <<"ninf", "pz", "pinf">>,
                    <<"pz", "pz", "one">>, <<"m1", "one", "one">>, <<"pz", "nan", "two">>,
                    <<"pz", "one_up", "two">>, <<"tiny", "one", "two">>}
              ELSE IF LEN = 1 THEN {<<"pz", "one">>, <<"nz", "one">>, <<"ninf", "pinf">>, <<"one", "one">>, <<"one", "pz">>}
              ELSE IF LEN = 3 THEN {<<"m1", "pz", "one", "two">>, <<"m1", "nz", "one", "two">>, <<"ninf", "pz", "pz", "pinf">>, <<"pz", "half", "one">>}
              ELSE IF LEN = 4 THEN {<<"m1", "pz", "half", "one", "two">>, <<"m1", "nz", "half", "one", "two">>, <<"ninf", "m1", "m1", "pz", "pinf">>}
              ELSE {}
AddSamples == {NaNSample, NegZeroSample, -1000, 10, 20, 39, 40, -20, 1}

GInit ==
    /\ Init /\ log = <<>>
    /\ CASE Mode = "build" -> tbl \in {[list |-> l] : l \in BuildCases}
         [] Mode = "find"  -> tbl \in {[edges |-> l] : l \in ValidEdges}
         [] Mode = "cw"    -> tbl \in {[a |-> a, b |-> b] : a \in -3..3, b \in -3..3} /\ tbl.a < tbl.b
         [] Mode = "hist"  -> tbl = [none |-> TRUE]

Log(e) == log' = Append(log, e) /\ UNCHANGED tbl

Tot(s) == IF hist[s].built THEN SumBins(hist[s].bins) ELSE 0

HistNext ==
    /\ Mode = "hist" /\ Len(log) < MaxDepth
    /\ \/ \E s \in Slots, l \in FixedLists : Build(s, l) /\ Log(<<"build", s, l>>)
       \/ \E s \in Slots, x \in AddSamples : Tot(s) < MaxCount /\ AddSample(s, x) /\ Log(<<"add", s, x>>)
       \/ \E d, s \in Slots : Tot(d) + Tot(s) <= MaxCount /\ Merge(d, s) /\ Log(<<"merge", d, s>>)
       \/ \E d, s \in Slots : Tot(d) + Tot(s) <= MaxCount /\ AddAssign(d, s) /\ Log(<<"addassign", d, s>>)
       \/ \E d, s \in Slots : Clone(d, s) /\ Log(<<"clone", d, s>>)
       \/ \E s \in Slots, k \in {0, 3} : Tot(s) * k <= MaxCount /\ MulAssign(s, k) /\ Log(<<"mul", s, k>>)
       \/ \E s \in Slots : Reset(s) /\ Log(<<"reset", s>>)
       \/ \E s \in Slots : Checkpoint(s) /\ Log(<<"ckpt", s>>)

GSpec == GInit /\ [][HistNext]_gvars

Enc(a) == IF a.k = "rat" THEN a.v ELSE a.k

ExportSlot(s) ==
    LET h == hist[s] IN
    IF ~h.built THEN [built |-> FALSE]
    ELSE [ built |-> TRUE, edges |-> h.edges, bins |-> h.bins,
           exactviews |-> \A i \in 1..(LEN + 1) : h.edges[i] \notin NearTokens,
           widths  |-> [i \in 1..LEN |-> Enc(Width(h.edges[i], h.edges[i + 1]))],
           centers |-> [i \in 1..LEN |-> Enc(Center(h.edges[i], h.edges[i + 1]))],
           norm    |-> [i \in 1..LEN |-> Enc(Normalized(h.bins[i], h.edges[i], h.edges[i + 1]))],
           vars    |-> [i \in 1..LEN |-> Enc(BinVariance(h, i))] ]

K == Cardinality(Slots)

Emit ==
    PrintT(ToJson(
      CASE Mode = "build" -> [mode |-> "build", len |-> LEN, list |-> tbl.list, res |-> FromRanges(tbl.list)]
        [] Mode = "find"  -> [mode |-> "find", len |-> LEN, edges |-> tbl.edges,
                              table |-> {<<x, FindDef(tbl.edges, x)>> : x \in Samples}]
        [] Mode = "cw"    -> [mode |-> "cw", len |-> LEN, a |-> tbl.a, b |-> tbl.b,
                              edges |-> ConstWidthEdges(R(tbl.a), R(tbl.b))]
        [] Mode = "hist"  -> [mode |-> "hist", len |-> LEN, h |-> log, last |-> last,
                              s |-> [s \in 1..K |-> ExportSlot(s)]]))
=============================================================================
