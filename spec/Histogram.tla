----------------------------- MODULE Histogram -----------------------------
(***************************************************************************)
(* define_histogram!(name, LEN) / histogram_const::Histogram<LEN>          *)
(* (src/histogram.rs, src/histogram_const.rs, view iterators in            *)
(* src/traits.rs).                                                         *)
(*                                                                         *)
(* Edges are tokens of the lattice the properties quantify over:           *)
(*   "ninf" < "m1" < ("nz" = "pz") < "half" < "one" < "two" < "pinf", "nan" *)
(* (-inf, -1, -0.0, 0.0, 0.5, 1, 2, +inf, NaN).  Their numeric value is     *)
(* 2 * value (so 0.5 is an integer); -0.0 and 0.0 are equal as numbers but  *)
(* are different tokens, because from_ranges must hand the edges back      *)
(* unchanged.                                                              *)
(*                                                                         *)
(* Samples live on a refined integer lattice: SampleOf(edge) = 20 * value, *)
(* +-1 for the floating-point successor / predecessor of an edge value,    *)
(* midpoints between consecutive lattice values, +-1000 for +-inf, +-999   *)
(* for +-f64::MAX, and two special samples: NaNSample and NegZeroSample    *)
(* (numerically 0).                                                        *)
(***************************************************************************)
EXTENDS Integers, Sequences, FiniteSets, Rat

CONSTANTS LEN,        \* number of bins
          Slots

VARIABLES hist,       \* [Slots -> histogram record]
          ghost,      \* [Slots -> [Samples -> Nat]]  multiset of accepted samples (times multipliers)
          last        \* result of the last call (for the generators / trace specs)

vars == <<hist, ghost, last>>

Tokens == {"ninf", "m1", "nz", "pz", "half", "one", "two", "pinf", "nan"}
\* two more edge values, used only by the fixed edge vectors of the merge configurations: the
\* floating-point successor of 1.0 and the smallest positive number -- edge vectors that differ
\* from another one by a single ulp, or by less than any absolute epsilon, are still DIFFERENT
NearTokens == {"one_up", "tiny"}
EdgeTokens == (Tokens \ {"nan"}) \cup NearTokens

\* numeric value of an edge token, on the sample lattice (20 * value)
EdgeVal(t) == CASE t = "ninf" -> -1000 [] t = "m1" -> -20 [] t = "nz" -> 0 [] t = "pz" -> 0
                [] t = "half" -> 10 [] t = "one" -> 20 [] t = "two" -> 40 [] t = "pinf" -> 1000
                [] t = "one_up" -> 21 [] t = "tiny" -> 1

NaNSample == 424242
NegZeroSample == 424243
FiniteEdgeVals == {-20, 0, 10, 20, 40}
Samples == {NaNSample, NegZeroSample, -1000, 1000, -999, 999}
           \cup FiniteEdgeVals
           \cup {v - 1 : v \in FiniteEdgeVals} \cup {v + 1 : v \in FiniteEdgeVals}
           \cup {-30, -10, 5, 15, 30, 50}        \* midpoints and one value beyond each end
SampleVal(x) == IF x = NegZeroSample THEN 0 ELSE x      \* x # NaNSample

(***************************************************************************)
(* from_ranges                                                             *)
(***************************************************************************)
\* result: [ok |-> TRUE, edges |-> ...] or [ok |-> FALSE, err |-> "NaN" | "NotSorted" | "NotEnoughRanges"]
IMin(a, b) == IF a <= b THEN a ELSE b

Offence(list, i) ==        \* what is wrong at position i (1-based), if anything
    IF list[i] = "nan" THEN "NaN"
    ELSE IF i > 1 /\ EdgeVal(list[i - 1]) > EdgeVal(list[i]) THEN "NotSorted"
    ELSE "none"

FromRanges(list) ==
    LET n   == IMin(Len(list), LEN + 1)
        bad == {i \in 1..n : \A j \in 1..i : (j < i => Offence(list, j) = "none") /\ (j = i => Offence(list, j) # "none")}
    IN  IF bad # {} THEN [ok |-> FALSE, err |-> Offence(list, CHOOSE i \in bad : TRUE)]
        ELSE IF Len(list) < LEN + 1 THEN [ok |-> FALSE, err |-> "NotEnoughRanges"]
        ELSE [ok |-> TRUE, edges |-> SubSeq(list, 1, LEN + 1)]

\* the property's statement of validity (C12)
ValidPrefix(list) ==
    /\ Len(list) >= LEN + 1
    /\ \A i \in 1..(LEN + 1) : list[i] # "nan"
    /\ \A i \in 1..LEN : EdgeVal(list[i]) <= EdgeVal(list[i + 1])

(***************************************************************************)
(* find                                                                    *)
(***************************************************************************)
\* definition: the bin i (1-based) with lower_i <= x < upper_i, 0 if there is none
FindDef(edges, x) ==
    IF x = NaNSample THEN 0
    ELSE LET v == SampleVal(x)
             S == {i \in 1..LEN : EdgeVal(edges[i]) <= v /\ v < EdgeVal(edges[i + 1])}
         IN  IF S = {} THEN 0 ELSE CHOOSE i \in S : TRUE

\* at most one bin can contain a sample (C06 "the unique half-open bin")
UniqueBin(edges, x) ==
    x = NaNSample \/
    Cardinality({i \in 1..LEN : EdgeVal(edges[i]) <= SampleVal(x) /\ SampleVal(x) < EdgeVal(edges[i + 1])}) <= 1

\* the code: slice::binary_search_by(|p| p.partial_cmp(&x)) of the installed standard library
\* (0-based indices), then the Ok/Err mapping of `find`
Cmp(e, v) == IF EdgeVal(e) < v THEN "Less" ELSE IF EdgeVal(e) > v THEN "Greater" ELSE "Equal"
RECURSIVE BSLoop(_, _, _, _)
BSLoop(edges, v, base, size) ==
    IF size <= 1 THEN base
    ELSE LET half == size \div 2
             mid  == base + half
         IN  BSLoop(edges, v, IF Cmp(edges[mid + 1], v) = "Greater" THEN base ELSE mid, size - half)
BinarySearch(edges, v) ==
    LET base == BSLoop(edges, v, 0, Len(edges))
        c    == Cmp(edges[base + 1], v)
    IN  IF c = "Equal" THEN [ok |-> TRUE, i |-> base]
        ELSE [ok |-> FALSE, i |-> base + (IF c = "Less" THEN 1 ELSE 0)]
FindCode(edges, x) ==
    IF x = NaNSample THEN 0          \* the property: NaN is out of range, never a panic
    ELSE LET r == BinarySearch(edges, SampleVal(x)) IN
         IF r.ok /\ r.i < LEN THEN r.i + 1
         ELSE IF ~r.ok /\ r.i > 0 /\ r.i < LEN + 1 THEN r.i
         ELSE 0

(***************************************************************************)
(* State machine                                                           *)
(***************************************************************************)
NoHist == [built |-> FALSE, edges |-> <<>>, bins |-> <<>>]
ZeroGhost == [x \in Samples |-> 0]

Init == /\ hist = [s \in Slots |-> NoHist]
        /\ ghost = [s \in Slots |-> ZeroGhost]
        /\ last = [op |-> "init"]

\* s = Histogram::from_ranges(list)
Build(s, list) ==
    LET r == FromRanges(list) IN
    /\ IF r.ok
         THEN /\ hist' = [hist EXCEPT ![s] = [built |-> TRUE, edges |-> r.edges, bins |-> [i \in 1..LEN |-> 0]]]
              /\ ghost' = [ghost EXCEPT ![s] = ZeroGhost]
         ELSE UNCHANGED <<hist, ghost>>
    /\ last' = [op |-> "build", res |-> r]

\* s.add(x)
AddSample(s, x) ==
    /\ hist[s].built
    /\ LET i == FindDef(hist[s].edges, x) IN
         IF i = 0
           THEN /\ UNCHANGED <<hist, ghost>>
                /\ last' = [op |-> "add", ok |-> FALSE, bin |-> 0]
           ELSE /\ hist' = [hist EXCEPT ![s].bins[i] = @ + 1]
                /\ ghost' = [ghost EXCEPT ![s][x] = @ + 1]
                /\ last' = [op |-> "add", ok |-> TRUE, bin |-> i]

\* edges equal as numbers (assert_eq! on f64: -0.0 == 0.0)
SameEdges(a, b) == \A i \in 1..(LEN + 1) : EdgeVal(a.edges[i]) = EdgeVal(b.edges[i])

\* d.merge(&s) and d += &s: identical semantics; panic (nothing changes) on different edges
Combine(d, s, opname) ==
    /\ d # s /\ hist[d].built /\ hist[s].built
    /\ IF SameEdges(hist[d], hist[s])
         THEN /\ hist' = [hist EXCEPT ![d].bins = [i \in 1..LEN |-> hist[d].bins[i] + hist[s].bins[i]]]
              /\ ghost' = [ghost EXCEPT ![d] = [x \in Samples |-> ghost[d][x] + ghost[s][x]]]
              /\ last' = [op |-> opname, panic |-> FALSE]
         ELSE /\ UNCHANGED <<hist, ghost>>
              /\ last' = [op |-> opname, panic |-> TRUE]
Merge(d, s) == Combine(d, s, "merge")
AddAssign(d, s) == Combine(d, s, "addassign")

\* s *= k
MulAssign(s, k) ==
    /\ hist[s].built
    /\ hist' = [hist EXCEPT ![s].bins = [i \in 1..LEN |-> hist[s].bins[i] * k]]
    /\ ghost' = [ghost EXCEPT ![s] = [x \in Samples |-> ghost[s][x] * k]]
    /\ last' = [op |-> "mul"]

Reset(s) ==
    /\ hist[s].built
    /\ hist' = [hist EXCEPT ![s].bins = [i \in 1..LEN |-> 0]]
    /\ ghost' = [ghost EXCEPT ![s] = ZeroGhost]
    /\ last' = [op |-> "reset"]

Clone(d, s) ==
    /\ d # s /\ hist[s].built
    /\ hist' = [hist EXCEPT ![d] = hist[s]]
    /\ ghost' = [ghost EXCEPT ![d] = ghost[s]]
    /\ last' = [op |-> "clone"]

Checkpoint(s) == hist[s].built /\ UNCHANGED <<hist, ghost>> /\ last' = [op |-> "ckpt"]

(***************************************************************************)
(* Views (src/traits.rs).  A value is [k |-> "rat", v |-> r] or a float    *)
(* class [k |-> "pinf" | "ninf" | "nan"].  Edge values are EdgeVal / 20.   *)
(***************************************************************************)
Cls(c) == [k |-> c]
Val(r) == [k |-> "rat", v |-> r]
IsInf(t) == t \in {"ninf", "pinf"}
EdgeRat(t) == Norm(EdgeVal(t), 20)      \* (not meaningful for NearTokens: views are not exported for them)

Width(a, b) ==            \* b - a for edges a <= b
    IF a = "ninf" /\ b = "ninf" THEN Cls("nan")
    ELSE IF a = "pinf" /\ b = "pinf" THEN Cls("nan")
    ELSE IF IsInf(a) \/ IsInf(b) THEN Cls("pinf")
    ELSE Val(RSub(EdgeRat(b), EdgeRat(a)))
Center(a, b) ==           \* 0.5 * (a + b)
    IF a = "ninf" /\ b = "pinf" THEN Cls("nan")
    ELSE IF a = "ninf" THEN Cls("ninf")
    ELSE IF b = "pinf" THEN Cls("pinf")
    ELSE Val(RDivI(RAdd(EdgeRat(a), EdgeRat(b)), 2))
Normalized(count, a, b) ==   \* count / (b - a)
    LET w == Width(a, b) IN
    IF w.k = "nan" THEN Cls("nan")
    ELSE IF w.k = "pinf" THEN Val(Zero)
    ELSE IF RIsZero(w.v) THEN (IF count = 0 THEN Cls("nan") ELSE Cls("pinf"))
    ELSE Val(RDiv(R(count), w.v))
RECURSIVE SumBins(_)
SumBins(b) == IF b = <<>> THEN 0 ELSE Head(b) + SumBins(Tail(b))
\* multinomial variance  n * (1 - n / N)
BinVariance(h, i) ==
    LET tot == SumBins(h.bins) IN
    IF tot = 0 THEN Cls("nan") ELSE Val(RMul(R(h.bins[i]), RSub(One, Norm(h.bins[i], tot))))

(***************************************************************************)
(* Iteration (IterHistogram): a cursor over the bins.  `&h` into_iter() /  *)
(* h.iter() start at position 0; next() yields ((lower, upper), count) of  *)
(* the bin at the cursor and advances, or None -- for ever -- once LEN     *)
(* items have been produced; a clone of the iterator continues from the    *)
(* same position.  So a full traversal yields exactly ItemsOf(h).          *)
(***************************************************************************)
ItemsOf(h) == [i \in 1..LEN |-> <<h.edges[i], h.edges[i + 1], h.bins[i]>>]
IterNew(h) == [h |-> h, pos |-> 0]
IterNext(it) ==      \* <<item or "none", iterator afterwards>>
    IF it.pos < LEN THEN <<ItemsOf(it.h)[it.pos + 1], [it EXCEPT !.pos = @ + 1]>>
    ELSE <<"none", it>>
RECURSIVE IterDrain(_)
IterDrain(it) == IF it.pos >= LEN THEN <<>> ELSE <<IterNext(it)[1]>> \o IterDrain(IterNext(it)[2])
\* from any position the remainder is the tail of ItemsOf, and the end is absorbing
IterLaws(h) ==
    /\ IterDrain(IterNew(h)) = ItemsOf(h)
    /\ \A k \in 0..LEN : IterDrain([h |-> h, pos |-> k]) = SubSeq(ItemsOf(h), k + 1, LEN)
    /\ IterNext([h |-> h, pos |-> LEN])[1] = "none"
IterationOK == \A s \in Slots : hist[s].built => IterLaws(hist[s])

\* with_const_width(start, end) for finite start < end: edge i = start + i * (end - start) / LEN
ConstWidthEdges(a, b) == [i \in 1..(LEN + 1) |-> RAdd(a, RDivI(RMulI(RSub(b, a), i - 1), LEN))]
ConstWidthOK(a, b) ==
    LET e == ConstWidthEdges(a, b) IN
    /\ e[1] = a /\ e[LEN + 1] = b
    /\ \A i \in 1..LEN : RLt(e[i], e[i + 1])

(***************************************************************************)
(* Invariants                                                              *)
(***************************************************************************)
TypeOK == \A s \in Slots :
    hist[s].built => /\ Len(hist[s].edges) = LEN + 1 /\ Len(hist[s].bins) = LEN
                     /\ \A i \in 1..(LEN + 1) : hist[s].edges[i] \in EdgeTokens
                     /\ \A i \in 1..LEN : hist[s].bins[i] \in Nat

\* every histogram that exists was accepted by from_ranges: edges non-decreasing
EdgesSorted == \A s \in Slots : hist[s].built =>
    \A i \in 1..LEN : EdgeVal(hist[s].edges[i]) <= EdgeVal(hist[s].edges[i + 1])

\* C06: the binary search of the code selects exactly the bin of the definition, for every
\* sample of the lattice; empty bins are never selected; success iff range_min <= x < range_max
FindIsDef == \A s \in Slots : hist[s].built =>
    \A x \in Samples :
        LET e == hist[s].edges IN
        /\ FindCode(e, x) = FindDef(e, x)
        /\ UniqueBin(e, x)
        /\ FindDef(e, x) # 0 => EdgeVal(e[FindDef(e, x)]) < EdgeVal(e[FindDef(e, x) + 1])
        /\ x # NaNSample =>
             ((FindDef(e, x) # 0) <=> (EdgeVal(e[1]) <= SampleVal(x) /\ SampleVal(x) < EdgeVal(e[LEN + 1])))

\* C06 / C13: each count is the number of accepted samples of that bin (times multipliers);
\* the total is the number of successful adds
RECURSIVE SumOver(_, _)
SumOver(f, S) == IF S = {} THEN 0 ELSE LET x == CHOOSE y \in S : TRUE IN f[x] + SumOver(f, S \ {x})
BinsAreCounts == \A s \in Slots : hist[s].built =>
    /\ \A i \in 1..LEN :
         hist[s].bins[i] = SumOver(ghost[s], {x \in Samples : FindDef(hist[s].edges, x) = i})
    /\ SumBins(hist[s].bins) = SumOver(ghost[s], Samples)

\* C17: bin variances of a non-empty histogram lie in [0, total/4]
VarianceRange == \A s \in Slots : hist[s].built =>
    \A i \in 1..LEN :
        LET v == BinVariance(hist[s], i) tot == SumBins(hist[s].bins) IN
        tot > 0 => /\ v.k = "rat" /\ RSign(v.v) >= 0 /\ RLe(v.v, Norm(tot, 4))

\* C12: from_ranges succeeds exactly on the valid prefixes and returns them unchanged
\* (stated over the lists an MC / generator configuration enumerates)
FromRangesIsDef(list) ==
    LET r == FromRanges(list) IN
    /\ r.ok <=> ValidPrefix(list)
    /\ r.ok => r.edges = SubSeq(list, 1, LEN + 1)
    /\ (~r.ok /\ Len(list) >= LEN + 1) => r.err \in {"NaN", "NotSorted"}
    /\ (~r.ok /\ r.err = "NotEnoughRanges") =>
          (Len(list) < LEN + 1 /\ \A i \in 1..Len(list) : Offence(list, i) = "none")
=============================================================================
