---------------------------- MODULE Covariance ----------------------------
(***************************************************************************)
(* Covariance  (src/covariance.rs): means, sums of squares and co-moment   *)
(* of a sequence of pairs, single-pass update and pairwise merge.          *)
(*                                                                         *)
(* Each slot also carries a twin object that is fed the swapped pairs      *)
(* (y, x) through the same transcription: the update is asymmetric (it     *)
(* uses the OLD x-mean and the NEW y-mean), so symmetry under swapping is  *)
(* a genuine property of the algorithm, checked as an invariant.           *)
(***************************************************************************)
EXTENDS Integers, Sequences, FiniteSets, Rat, Exact

CONSTANTS Slots, Values

VARIABLES obj, twin, data

vars == <<obj, twin, data>>

Pairs == Values \X Values

NewObj == [n |-> 0, ax |-> Zero, sx2 |-> Zero, ay |-> Zero, sy2 |-> Zero, sp |-> Zero]

\* Covariance::add
ObjAdd(o, x, y) ==
    LET n   == o.n + 1
        dx  == RSub(R(x), o.ax)
        dxn == RDivI(dx, n)
        dyn == RDivI(RSub(R(y), o.ay), n)
        ay  == RAdd(o.ay, dyn)
    IN  [n   |-> n,
         ax  |-> RAdd(o.ax, dxn),
         sx2 |-> RAdd(o.sx2, RMulI(RMul(dxn, dxn), n * (n - 1))),
         ay  |-> ay,
         sy2 |-> RAdd(o.sy2, RMulI(RMul(dyn, dyn), n * (n - 1))),
         sp  |-> RAdd(o.sp, RMul(dx, RSub(R(y), ay)))]

\* Covariance::merge
ObjMerge(a, b) ==
    IF b.n = 0 THEN a
    ELSE IF a.n = 0 THEN b
    ELSE LET dx == RSub(b.ax, a.ax)
             dy == RSub(b.ay, a.ay)
             ls == a.n lo == b.n lt == ls + lo
             w(t) == RDivI(RMulI(t, ls * lo), lt)
         IN  [n   |-> lt,
              ax  |-> RDivI(RAdd(RMulI(a.ax, ls), RMulI(b.ax, lo)), lt),
              sx2 |-> RAdd(a.sx2, RAdd(b.sx2, w(RMul(dx, dx)))),
              ay  |-> RDivI(RAdd(RMulI(a.ay, ls), RMulI(b.ay, lo)), lt),
              sy2 |-> RAdd(a.sy2, RAdd(b.sy2, w(RMul(dy, dy)))),
              sp  |-> RAdd(a.sp, RAdd(b.sp, w(RMul(dx, dy))))]

Init == /\ obj  = [s \in Slots |-> NewObj]
        /\ twin = [s \in Slots |-> NewObj]
        /\ data = [s \in Slots |-> <<>>]

Add(s, x, y) ==
    /\ obj'  = [obj  EXCEPT ![s] = ObjAdd(@, x, y)]
    /\ twin' = [twin EXCEPT ![s] = ObjAdd(@, y, x)]
    /\ data' = [data EXCEPT ![s] = Append(@, <<x, y>>)]
Merge(d, s) ==
    /\ d # s
    /\ obj'  = [obj  EXCEPT ![d] = ObjMerge(@, obj[s])]
    /\ twin' = [twin EXCEPT ![d] = ObjMerge(@, twin[s])]
    /\ data' = [data EXCEPT ![d] = @ \o data[s]]
Clone(d, s) ==
    /\ d # s
    /\ obj'  = [obj  EXCEPT ![d] = obj[s]]
    /\ twin' = [twin EXCEPT ![d] = twin[s]]
    /\ data' = [data EXCEPT ![d] = data[s]]
Fresh(s) ==
    /\ obj'  = [obj  EXCEPT ![s] = NewObj]
    /\ twin' = [twin EXCEPT ![s] = NewObj]
    /\ data' = [data EXCEPT ![s] = <<>>]
Checkpoint(s) == UNCHANGED vars

Next == \/ \E s \in Slots, p \in Pairs : Add(s, p[1], p[2])
        \/ \E d, s \in Slots : Merge(d, s) \/ Clone(d, s)
        \/ \E s \in Slots : Fresh(s) \/ Checkpoint(s)

Spec == Init /\ [][Next]_vars

(***************************************************************************)
(* Accessors                                                               *)
(***************************************************************************)
NaN       == [k |-> "nan"]
Undef     == [k |-> "undef"]     \* 0/0 or c/0: outside every property's quantifier
Val(r)    == [k |-> "rat", v |-> r]
Root(s, r) == IF s = 0 \/ RIsZero(r) THEN Val(Zero) ELSE [k |-> "root", s |-> s, v |-> r]

LenOf(o)   == o.n
IsEmpty(o) == o.n = 0
MeanX(o)   == IF o.n > 0 THEN Val(o.ax) ELSE NaN
MeanY(o)   == IF o.n > 0 THEN Val(o.ay) ELSE NaN
PopVarX(o) == IF o.n = 0 THEN NaN ELSE Val(RDivI(o.sx2, o.n))
PopVarY(o) == IF o.n = 0 THEN NaN ELSE Val(RDivI(o.sy2, o.n))
SampleVarX(o) == IF o.n < 2 THEN NaN ELSE Val(RDivI(o.sx2, o.n - 1))
SampleVarY(o) == IF o.n < 2 THEN NaN ELSE Val(RDivI(o.sy2, o.n - 1))
PopCov(o)    == IF o.n < 1 THEN NaN ELSE Val(RDivI(o.sp, o.n))
SampleCov(o) == IF o.n < 2 THEN NaN ELSE Val(RDivI(o.sp, o.n - 1))
Pearson(o)   == IF o.n < 2 THEN NaN
                ELSE IF RIsZero(o.sx2) \/ RIsZero(o.sy2) THEN Undef
                ELSE Root(RSign(o.sp), RDiv(RMul(o.sp, o.sp), RMul(o.sx2, o.sy2)))

(***************************************************************************)
(* Invariants                                                              *)
(***************************************************************************)
Xs(d) == [i \in 1..Len(d) |-> d[i][1]]
Ys(d) == [i \in 1..Len(d) |-> d[i][2]]

TypeOK == \A s \in Slots :
    /\ obj[s].n \in Nat
    /\ IsRat(obj[s].ax) /\ IsRat(obj[s].ay) /\ IsRat(obj[s].sx2) /\ IsRat(obj[s].sy2) /\ IsRat(obj[s].sp)
    /\ data[s] \in Seq(Pairs)

\* C09
CovIsDef == \A s \in Slots : LET d == data[s] o == obj[s] IN
    /\ o.n = Len(d)
    /\ d = <<>> => o = NewObj
    /\ d # <<>> => /\ o.ax = MeanOf(Xs(d)) /\ o.ay = MeanOf(Ys(d))
                   /\ o.sx2 = CentralSum(Xs(d), 2) /\ o.sy2 = CentralSum(Ys(d), 2)
                   /\ o.sp = CoSum(Xs(d), Ys(d))

\* |pearson| <= 1 (Cauchy-Schwarz), variances non-negative (C09, C17)
CauchySchwarz == \A s \in Slots : LET o == obj[s] IN
    /\ RSign(o.sx2) >= 0 /\ RSign(o.sy2) >= 0
    /\ RLe(RMul(o.sp, o.sp), RMul(o.sx2, o.sy2))

\* swapping the roles of x and y swaps the x/y statistics and keeps the co-moment
SwapSymmetric == \A s \in Slots : LET o == obj[s] t == twin[s] IN
    /\ t.n = o.n /\ t.ax = o.ay /\ t.ay = o.ax
    /\ t.sx2 = o.sy2 /\ t.sy2 = o.sx2 /\ t.sp = o.sp

\* C16
Sentinels == \A s \in Slots : LET d == data[s] o == obj[s] IN
    /\ d = <<>> => /\ MeanX(o) = NaN /\ MeanY(o) = NaN /\ PopVarX(o) = NaN /\ PopVarY(o) = NaN
                   /\ SampleVarX(o) = NaN /\ SampleVarY(o) = NaN
                   /\ PopCov(o) = NaN /\ SampleCov(o) = NaN /\ Pearson(o) = NaN
    /\ Len(d) = 1 => /\ SampleVarX(o) = NaN /\ SampleVarY(o) = NaN /\ SampleCov(o) = NaN
                     /\ Pearson(o) = NaN
                     /\ MeanX(o) = Val(R(d[1][1])) /\ MeanY(o) = Val(R(d[1][2]))
                     /\ PopVarX(o) = Val(Zero) /\ PopVarY(o) = Val(Zero) /\ PopCov(o) = Val(Zero)

\* C11
MergeLaws ==
    [][\A d, s \in Slots :
         (d # s /\ obj' = [obj EXCEPT ![d] = ObjMerge(obj[d], obj[s])]
                /\ data' = [data EXCEPT ![d] = data[d] \o data[s]]) =>
            /\ obj'[d].n = obj[d].n + obj[s].n
            /\ obj'[s] = obj[s]
            /\ data[s] = <<>> => obj'[d] = obj[d]
            /\ data[d] = <<>> => obj'[d] = obj[s]]_vars
=============================================================================
