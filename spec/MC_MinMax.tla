----------------------------- MODULE MC_MinMax -----------------------------
EXTENDS MinMax
CONSTANTS MaxLen
LenBound == \A s \in Slots : Len(data[s]) <= MaxLen
=============================================================================
