---------------------------- MODULE Gen_Moments ----------------------------
(***************************************************************************)
(* Behaviour generator for the moment family: the actions of Moments with  *)
(* a history variable, and an always-true "invariant" that prints, for     *)
(* every reachable state, the history that led to it together with the     *)
(* specification's exact accessor values.  The harness replays each        *)
(* history on the real types and compares (spec -> implementation).        *)
(*                                                                         *)
(* Mode "seq":  one slot, every sequence of adds.                          *)
(* Mode "tree": feed a sequence cut into up to K contiguous chunks (empty  *)
(*              chunks allowed), then merge adjacent chunks in any order   *)
(*              and either direction -- every binary merge tree.           *)
(* Mode "rayon": the fold/reduce shape of parallel collection: leaves that  *)
(*              merge their accumulator into an empty identity, then joins. *)
(* Mode "hist": arbitrary interleavings of add / merge / clone / fresh /   *)
(*              checkpoint over the slots, to a depth bound.               *)
(***************************************************************************)
EXTENDS Moments, Json, TLC

CONSTANTS Mode, MaxLen, MaxDepth

VARIABLES hist,    \* sequence of API calls performed so far
          cur,     \* tree mode: slot currently being fed
          phase,   \* tree mode: "feed" or "merge"
          live     \* tree mode: live chunks, in data order

gvars == <<obj, data, hist, cur, phase, live>>

K == Cardinality(Slots)
Total == SumSeq([s \in 1..K |-> Len(data[s])])

GInit == /\ Init
         /\ hist = <<>>
         /\ cur = 1
         /\ phase = "feed"
         /\ live = <<>>

Log(e) == hist' = Append(hist, e)

\* ---------------------------------------------------------------- seq
SeqNext == \E x \in Alphabet :
              /\ Len(data[1]) < MaxLen
              /\ Add(1, x) /\ Log(<<"add", 1, x>>)
              /\ UNCHANGED <<cur, phase, live>>

\* ---------------------------------------------------------------- tree
RemoveAt(s, i) == [j \in 1..(Len(s) - 1) |-> IF j < i THEN s[j] ELSE s[j + 1]]

Feed(x) == /\ phase = "feed" /\ Total < MaxLen
           /\ Add(cur, x) /\ Log(<<"add", cur, x>>)
           /\ UNCHANGED <<cur, phase, live>>
Cut     == /\ phase = "feed" /\ cur < K
           /\ cur' = cur + 1
           /\ UNCHANGED <<obj, data, hist, phase, live>>
Seal    == /\ phase = "feed"
           /\ phase' = "merge" /\ live' = [i \in 1..cur |-> i]
           /\ UNCHANGED <<obj, data, hist, cur>>
MergeAdj(i, fwd) ==
    /\ phase = "merge" /\ i \in 1..(Len(live) - 1)
    /\ LET a == live[i] b == live[i + 1] IN
         IF fwd THEN /\ Merge(a, b) /\ Log(<<"merge", a, b>>)
                     /\ live' = RemoveAt(live, i + 1)
                ELSE /\ Merge(b, a) /\ Log(<<"merge", b, a>>)
                     /\ live' = RemoveAt(live, i)
    /\ UNCHANGED <<cur, phase>>
TreeNext == \/ \E x \in Alphabet : Feed(x)
            \/ Cut \/ Seal
            \/ \E i \in 1..K, fwd \in BOOLEAN : MergeAdj(i, fwd)

\* ---------------------------------------------------------------- rayon
\* The shape impl_from_par_iterator! produces (Rayon.tla): leaf i folds its items into a fresh
\* accumulator (slot 2i) and merges it into a fresh reduce identity (slot 2i-1); completed
\* adjacent results are joined left.merge(right) in any order.  K = number of slots / 2 leaves.
Leaves == K \div 2
TotalFed == SumSeq([i \in 1..Leaves |-> Len(data[2 * i])])
RFeed(x) == /\ phase = "feed" /\ TotalFed < MaxLen
            /\ Add(2 * cur, x) /\ Log(<<"add", 2 * cur, x>>)
            /\ UNCHANGED <<cur, phase, live>>
RCut     == /\ phase = "feed" /\ cur < Leaves
            /\ Merge(2 * cur - 1, 2 * cur) /\ Log(<<"merge", 2 * cur - 1, 2 * cur>>)
            /\ cur' = cur + 1
            /\ UNCHANGED <<phase, live>>
RSeal    == /\ phase = "feed"
            /\ Merge(2 * cur - 1, 2 * cur) /\ Log(<<"merge", 2 * cur - 1, 2 * cur>>)
            /\ phase' = "merge" /\ live' = [i \in 1..cur |-> 2 * i - 1]
            /\ UNCHANGED cur
RayonNext == \/ \E x \in Alphabet : RFeed(x)
             \/ RCut \/ RSeal
             \/ \E i \in 1..Leaves : MergeAdj(i, TRUE)

\* ---------------------------------------------------------------- hist
HistNext ==
    /\ Len(hist) < MaxDepth
    /\ UNCHANGED <<cur, phase, live>>
    /\ \/ \E s \in Slots, x \in Alphabet :
             Len(data[s]) < MaxLen /\ Add(s, x) /\ Log(<<"add", s, x>>)
       \/ \E d, s \in Slots :
             Len(data[d]) + Len(data[s]) <= MaxLen /\ Merge(d, s) /\ Log(<<"merge", d, s>>)
       \/ \E d, s \in Slots : Clone(d, s) /\ Log(<<"clone", d, s>>)
       \/ \E s \in Slots : Fresh(s) /\ Log(<<"fresh", s>>)
       \/ \E s \in Slots : Checkpoint(s) /\ Log(<<"ckpt", s>>)

GNext == CASE Mode = "seq"  -> SeqNext
           [] Mode = "tree" -> TreeNext
           [] Mode = "rayon" -> RayonNext
           [] Mode = "hist" -> HistNext

GSpec == GInit /\ [][GNext]_gvars

(***************************************************************************)
(* Export                                                                  *)
(***************************************************************************)
Enc(a) == CASE a.k = "nan"   -> "nan"
            [] a.k = "panic" -> "panic"
            [] a.k = "rat"   -> a.v
            [] a.k = "root"  -> <<a.s, a.v[1], a.v[2]>>

Export(s) ==
    LET c == obj[s].chain o == obj[s].peb IN
    [ n    |-> c.n,
      data |-> data[s],
      mean |-> Enc(CMean(c)),
      pvar |-> Enc(CPopVar(c)),
      svar |-> Enc(CSampleVar(c)),
      vom  |-> Enc(CVarOfMean(c)),
      err  |-> Enc(CError(c)),
      skew |-> Enc(CSkewness(c)),
      kurt |-> Enc(CKurtosis(c)),
      cm   |-> [p \in 1..(P + 1) |-> Enc(PCentral(o, p - 1))],      \* cm[i] = central_moment(i-1)
      sm   |-> [p \in 1..(P + 1) |-> Enc(PStandardized(o, p - 1))],
      ssk  |-> Enc(PSampleSkew(o)),
      sku  |-> Enc(PSampleExKurt(o)) ]

Emit == PrintT(ToJson([h |-> hist, s |-> [s \in 1..K |-> Export(s)]]))

GenAlphabet == {-3, -1, 0, 2, 3}
GenAlphabetSmall == {-1, 0, 2}
GenAlphabetTiny == {0, 1, 2}
\* unequally spaced: short multisets over it include asymmetric samples whose third central moment
\* vanishes exactly while the fifth does not (9,5,5,5,0,0: deviations 5,1,1,1,-4,-4), and samples
\* in which an observation equals the running mean -- the degenerate cases of the odd-order terms
\* of the higher-moment recurrences
GenAlphabetZeroSkew == {0, 5, 9}
=============================================================================
