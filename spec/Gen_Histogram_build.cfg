SPECIFICATION GSpec
CONSTANTS
  LEN = 2
  Slots = {1, 2}
  Mode = "build"
  BuildLen = 3
  MaxDepth = 3
  MaxCount = 3
INVARIANT Emit
CHECK_DEADLOCK FALSE
