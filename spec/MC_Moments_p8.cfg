\* define_moments!(T, 8): design-level check of the Pebay recurrences up to order 8
SPECIFICATION Spec
CONSTANTS
  Slots = {1, 2}
  Alphabet <- MCAlphabetSmall
  P = 8
  MaxLen = 2
CONSTRAINT LenBound
INVARIANTS TypeOK LenExact AlgIsDef ChainIsPebay VarNonNeg Sentinels
PROPERTY MergeLaws
CHECK_DEADLOCK FALSE
