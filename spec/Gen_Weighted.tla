---------------------------- MODULE Gen_Weighted ----------------------------
(* Behaviour generator for WeightedMean / WeightedMeanWithError: see Gen_Moments. *)
EXTENDS Weighted, Json, TLC

CONSTANTS Mode, MaxLen, MaxDepth

VARIABLES hist, cur, phase, live

K == Cardinality(Slots)
Total == SumSeq([s \in 1..K |-> Len(data[s])])

GInit == /\ Init
         /\ hist = <<>>
         /\ cur = 1
         /\ phase = "feed"
         /\ live = <<>>

Log(e) == hist' = Append(hist, e)

SeqNext == \E p \in Pairs :
              /\ Len(data[1]) < MaxLen
              /\ Add(1, p[1], p[2]) /\ Log(<<"add", 1, p[1], p[2]>>)
              /\ UNCHANGED <<cur, phase, live>>

RemoveAt(s, i) == [j \in 1..(Len(s) - 1) |-> IF j < i THEN s[j] ELSE s[j + 1]]

Feed(p) == /\ phase = "feed" /\ Total < MaxLen
           /\ Add(cur, p[1], p[2]) /\ Log(<<"add", cur, p[1], p[2]>>)
           /\ UNCHANGED <<cur, phase, live>>
Cut     == /\ phase = "feed" /\ cur < K
           /\ cur' = cur + 1
           /\ UNCHANGED <<obj, data, hist, phase, live>>
Seal    == /\ phase = "feed"
           /\ phase' = "merge" /\ live' = [i \in 1..cur |-> i]
           /\ UNCHANGED <<obj, data, hist, cur>>
MergeAdj(i, fwd) ==
    /\ phase = "merge" /\ i \in 1..(Len(live) - 1)
    /\ LET a == live[i] b == live[i + 1] IN
         IF fwd THEN /\ Merge(a, b) /\ Log(<<"merge", a, b>>)
                     /\ live' = RemoveAt(live, i + 1)
                ELSE /\ Merge(b, a) /\ Log(<<"merge", b, a>>)
                     /\ live' = RemoveAt(live, i)
    /\ UNCHANGED <<cur, phase>>
TreeNext == \/ \E p \in Pairs : Feed(p)
            \/ Cut \/ Seal
            \/ \E i \in 1..K, fwd \in BOOLEAN : MergeAdj(i, fwd)

HistNext ==
    /\ Len(hist) < MaxDepth
    /\ UNCHANGED <<cur, phase, live>>
    /\ \/ \E s \in Slots, p \in Pairs :
             Len(data[s]) < MaxLen /\ Add(s, p[1], p[2]) /\ Log(<<"add", s, p[1], p[2]>>)
       \/ \E d, s \in Slots :
             Len(data[d]) + Len(data[s]) <= MaxLen /\ Merge(d, s) /\ Log(<<"merge", d, s>>)
       \/ \E d, s \in Slots : Clone(d, s) /\ Log(<<"clone", d, s>>)
       \/ \E s \in Slots : Fresh(s) /\ Log(<<"fresh", s>>)
       \/ \E s \in Slots : Checkpoint(s) /\ Log(<<"ckpt", s>>)

GNext == CASE Mode = "seq"  -> SeqNext
           [] Mode = "tree" -> TreeNext
           [] Mode = "hist" -> HistNext

GSpec == GInit /\ [][GNext]_<<obj, data, hist, cur, phase, live>>

Enc(a) == CASE a.k = "nan"   -> "nan"
            [] a.k = "undef" -> "undef"
            [] a.k = "panic" -> "panic"
            [] a.k = "rat"   -> a.v
            [] a.k = "root"  -> <<a.s, a.v[1], a.v[2]>>

Export(s) ==
    LET o == obj[s] IN
    [ n      |-> o.n,
      data   |-> data[s],
      wempty |-> WIsEmpty(o),
      wmean  |-> Enc(WeightedMean(o)),
      umean  |-> Enc(UnweightedMean(o)),
      sw     |-> Enc(SumWeights(o)),
      sw2    |-> Enc(SumWeightsSq(o)),
      efflen |-> Enc(EffectiveLen(o)),
      pvar   |-> Enc(PopVar(o)),
      svar   |-> Enc(SampleVar(o)),
      vowm   |-> Enc(VarOfWMean(o)),
      err    |-> Enc(Error(o)) ]

Emit == PrintT(ToJson([h |-> hist, s |-> [s \in 1..K |-> Export(s)]]))

GenValues == {-1, 0, 2}
GenWeights == {0, 1, 3}
\* very unequal weights (the property quantifies over w in {0} u [1e-6, 1e6]): chunks whose total
\* weights differ by more than three orders of magnitude
GenWeightsWide == {0, 1, 4096}
GenValuesNarrow == {-1, 2}
=============================================================================
