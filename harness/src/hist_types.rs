//! The stable histogram types (define_histogram! instantiations and the crate's Histogram10)
//! behind the `HistT` trait of hist.rs.

use crate::hist::*;
use crate::report::*;
use average::{Histogram as HistTrait, InvalidRangeError, Merge};
use serde_json::Value;

pub mod h1 {
    average::define_histogram!(hist, 1);
    pub use hist::Histogram;
}
pub mod h2 {
    average::define_histogram!(hist, 2);
    pub use hist::Histogram;
}
pub mod h3 {
    average::define_histogram!(hist, 3);
    pub use hist::Histogram;
}
pub mod h4 {
    average::define_histogram!(hist, 4);
    pub use hist::Histogram;
}
pub mod h10 {
    average::define_histogram!(hist, 10);
    pub use hist::Histogram;
}
pub mod h100 {
    average::define_histogram!(hist, 100);
    pub use hist::Histogram;
}

fn ename(e: InvalidRangeError) -> &'static str {
    match e {
        InvalidRangeError::NaN => "NaN",
        InvalidRangeError::NotSorted => "NotSorted",
        InvalidRangeError::NotEnoughRanges => "NotEnoughRanges",
    }
}

macro_rules! hist_impl {
    ($t:ty, $len:expr, $name:expr) => {
        impl HistT for $t {
            const LEN: usize = $len;
            const NAME: &'static str = $name;
            fn from_ranges(v: Vec<f64>) -> Result<Self, &'static str> {
                <$t>::from_ranges(v).map_err(ename)
            }
            fn from_ranges_lazy(v: Vec<f64>) -> Result<Self, &'static str> {
                <$t>::from_ranges(v.into_iter().filter(|x| !x.is_nan() || x.is_nan())).map_err(ename)
            }
            fn with_const_width(a: f64, b: f64) -> Self {
                <$t>::with_const_width(a, b)
            }
            fn find(&self, x: f64) -> Result<usize, ()> {
                <$t>::find(self, x).map_err(|_| ())
            }
            fn add(&mut self, x: f64) -> Result<(), ()> {
                <$t>::add(self, x).map_err(|_| ())
            }
            fn bins(&self) -> Vec<u64> {
                HistTrait::bins(self).to_vec()
            }
            fn ranges(&self) -> Vec<f64> {
                <$t>::ranges(self).to_vec()
            }
            fn range_min(&self) -> f64 {
                <$t>::range_min(self)
            }
            fn range_max(&self) -> f64 {
                <$t>::range_max(self)
            }
            fn merge(&mut self, o: &Self) {
                Merge::merge(self, o)
            }
            fn add_assign(&mut self, o: &Self) {
                *self += o;
            }
            fn mul_assign(&mut self, k: u64) {
                *self *= k;
            }
            fn reset(&mut self) {
                <$t>::reset(self)
            }
            fn items(&self) -> Vec<((f64, f64), u64)> {
                self.into_iter().collect()
            }
            fn iter_items(&self) -> Vec<((f64, f64), u64)> {
                self.iter().collect()
            }
            fn iter_protocol(&self, k: usize) -> (Vec<((f64, f64), u64)>, Vec<((f64, f64), u64)>, Vec<((f64, f64), u64)>, bool) {
                let mut it = self.iter();
                let mut first = Vec::new();
                for _ in 0..k {
                    if let Some(x) = it.next() {
                        first.push(x);
                    }
                }
                let mut cl = it.clone();
                let rest: Vec<_> = it.by_ref().collect();
                let rest_clone: Vec<_> = cl.by_ref().collect();
                let none_twice = it.next().is_none() && it.next().is_none() && cl.next().is_none();
                (first, rest, rest_clone, none_twice)
            }
            fn widths(&self) -> Vec<f64> {
                HistTrait::widths(self).collect()
            }
            fn centers(&self) -> Vec<f64> {
                HistTrait::centers(self).collect()
            }
            fn normalized(&self) -> Vec<f64> {
                HistTrait::normalized_bins(self).collect()
            }
            fn variances(&self) -> Vec<f64> {
                HistTrait::variances(self).collect()
            }
            fn variance(&self, i: usize) -> f64 {
                HistTrait::variance(self, i)
            }
            fn to_json(&self) -> Option<String> {
                serde_json::to_string(self).ok()
            }
            fn from_json(s: &str) -> Self {
                serde_json::from_str(s).unwrap()
            }
            fn roundtrip_pos(&self) -> Option<Result<Self, String>> {
                Some(crate::posfmt::roundtrip(self))
            }
            fn debug(&self) -> String {
                format!("{:?}", self)
            }
        }
    };
}

hist_impl!(h1::Histogram, 1, "h1");
hist_impl!(h2::Histogram, 2, "h2");
hist_impl!(h3::Histogram, 3, "h3");
hist_impl!(h4::Histogram, 4, "h4");
hist_impl!(h10::Histogram, 10, "h10");
hist_impl!(h100::Histogram, 100, "h100");
hist_impl!(average::Histogram10, 10, "Histogram10");


pub fn process_line(v: &Value, want: &HWant, rep: &mut Report) {
    let kept_before = rep.violations.len();
    if !line_prologue(v, rep) {
        return;
    }
    match v["len"].as_u64().unwrap() {
        1 => dispatch::<h1::Histogram>(v, want, rep),
        2 => dispatch::<h2::Histogram>(v, want, rep),
        3 => dispatch::<h3::Histogram>(v, want, rep),
        4 => dispatch::<h4::Histogram>(v, want, rep),
        10 => {
            dispatch::<h10::Histogram>(v, want, rep);
            dispatch::<average::Histogram10>(v, want, rep);
        }
        100 => dispatch::<h100::Histogram>(v, want, rep),
        n => panic!("no histogram type with LEN {n}"),
    }
    for x in rep.violations.iter_mut().skip(kept_before) {
        x["line"] = v.clone();
    }
}

// ---------------------------------------------------------------------------------------------
// C18 for histograms beyond the token lattice: arbitrary finite edges (uniform grids that are
// uniform only up to rounding, with_const_width output, random sorted edges), random adds, a
// serde round trip at a random position, continue on both copies, merge the two.
use rand::{Rng, SeedableRng};
use rand_xoshiro::Xoshiro256PlusPlus;
use serde_json::json;

fn serde_case<H: HistT>(edges: Vec<f64>, label: &str, rng: &mut Xoshiro256PlusPlus, rep: &mut Report) {
    let h0 = match H::from_ranges(edges.clone()) {
        Ok(h) => h,
        Err(_) => return,
    };
    serde_case_on::<H>(h0, edges, label, rng, rep)
}

fn serde_case_on<H: HistT>(h0: H, edges: Vec<f64>, label: &str, rng: &mut Xoshiro256PlusPlus, rep: &mut Report) {
    rep.replays += 1;
    let lo = edges[0];
    let hi = edges[H::LEN];
    let sample = |rng: &mut Xoshiro256PlusPlus| -> f64 {
        match rng.random_range(0..4) {
            0 => edges[rng.random_range(0..edges.len())],
            _ => lo + (hi - lo) * rng.random::<f64>(),
        }
    };
    let mut a = h0.clone();
    let n1 = rng.random_range(0..20);
    for _ in 0..n1 {
        let _ = a.add(sample(rng));
    }
    // counts beyond 2^53 (not representable as f64), reached by adds and merges only: the
    // histogram merged with a clone of itself 55 times, then one more sample
    let doubled = n1 > 0 && rng.random_range(0..3) == 0;
    if doubled {
        for _ in 0..55 {
            let c = a.clone();
            a.merge(&c);
        }
        let _ = a.add(sample(rng));
        let _ = a.add(lo);
    }
    let fail = |rep: &mut Report, what: String| {
        rep.violation(json!({"property": "C18", "family": "histogram", "type": H::NAME, "embedding": label,
            "history": {"edges": edges, "adds_before_checkpoint": n1, "then_merged_with_its_clone_55_times_and_two_more_adds": doubled}, "accessor": "roundtrip", "what": what,
            "signature": format!("C18|{}|roundtrip-{}", H::NAME, label)}));
    };
    let j = match a.to_json() {
        Some(j) => j,
        None => return,
    };
    let mut b = H::from_json(&j);
    if let Some(Ok(bp)) = a.roundtrip_pos() {
        rep.evaluations += 1;
        if bp.bins() != a.bins() || !bp.ranges().iter().zip(a.ranges()).all(|(p, q)| p.to_bits() == q.to_bits()) {
            fail(rep, "the copy restored through the positional format differs".into());
            return;
        }
        if n1 % 2 == 1 {
            b = bp;
        }
    }
    rep.evaluations += 4;
    let same_bits = |x: &[f64], y: &[f64]| x.len() == y.len() && x.iter().zip(y).all(|(p, q)| p.to_bits() == q.to_bits());
    if !same_bits(&a.ranges(), &b.ranges()) {
        fail(rep, format!("restored edges differ bit for bit: {:?} vs {:?}", b.ranges(), a.ranges()));
        return;
    }
    if a.bins() != b.bins() {
        fail(rep, "restored counts differ".into());
        return;
    }
    for _ in 0..20 {
        let x = sample(rng);
        let ra = a.add(x).is_ok();
        let rb = b.add(x).is_ok();
        if ra != rb || a.bins() != b.bins() {
            fail(rep, format!("continuing with sample {:e} diverged after the round trip", x));
            return;
        }
    }
    // a never-serialised twin and the restored copy must still merge
    let merged = std::panic::catch_unwind(std::panic::AssertUnwindSafe(|| {
        let mut c = a.clone();
        c.merge(&b);
        c.bins()
    }));
    match merged {
        Ok(bins) => {
            let want: Vec<u64> = a.bins().iter().zip(b.bins()).map(|(x, y)| x + y).collect();
            if bins != want {
                fail(rep, "merge of the original with its restored copy is not the bin-wise sum".into());
            }
        }
        Err(_) => fail(rep, "merging the original with its restored copy panicked (edges no longer identical)".into()),
    }
}

fn serde_family<H: HistT>(rng: &mut Xoshiro256PlusPlus, reps: usize, rep: &mut Report) {
    let n = H::LEN;
    for r in 0..reps {
        rep.behaviours += 1;
        rep.nontrivial.insert(hash_str(&format!("{}{}", H::NAME, r)));
        // uniform up to rounding: i / n, i * 0.1, offset grids
        let scale = [1.0, 0.1, 3.0, 1e-3, 7.7][r % 5];
        serde_case::<H>((0..=n).map(|i| i as f64 / n as f64 * scale).collect(), "i/LEN*scale", rng, rep);
        serde_case::<H>((0..=n).map(|i| i as f64 * 0.1 * scale).collect(), "i*0.1*scale", rng, rep);
        serde_case::<H>((0..=n).map(|i| 1000.0 + i as f64 * 0.3).collect(), "1000+0.3i", rng, rep);
        // what with_const_width itself produces
        let (s0, s1) = (rng.random::<f64>() * 10.0 - 5.0, rng.random::<f64>() * 10.0 + 5.5);
        serde_case::<H>(H::with_const_width(s0, s1).ranges(), "with_const_width edges via from_ranges", rng, rep);
        // the histogram exactly as with_const_width built it (not re-built from its edges), on
        // ranges whose step is not representable
        for (a, b) in [(0.0, 1.0), (-3.0, 3.0), (s0, s1), (0.1, 0.7)] {
            let h = H::with_const_width(a, b);
            let e = h.ranges();
            serde_case_on::<H>(h, e, "with_const_width", rng, rep);
        }
        // random sorted edges with repeats
        let mut e: Vec<f64> = (0..=n).map(|_| (rng.random::<f64>() * 8.0).floor() / 3.0).collect();
        e.sort_by(|x, y| x.partial_cmp(y).unwrap());
        serde_case::<H>(e, "random-sorted-with-repeats", rng, rep);
    }
}

pub fn direct_histserde(seed: u64, reps: usize, rep: &mut Report) {
    let mut rng = Xoshiro256PlusPlus::seed_from_u64(seed);
    serde_family::<h2::Histogram>(&mut rng, reps, rep);
    serde_family::<h3::Histogram>(&mut rng, reps, rep);
    serde_family::<h10::Histogram>(&mut rng, reps, rep);
    serde_family::<average::Histogram10>(&mut rng, reps, rep);
    serde_family::<h100::Histogram>(&mut rng, reps, rep);
    rep.sample(json!({"family": "histogram serde", "edge_families": ["i/LEN*scale", "i*0.1*scale", "1000+0.3i", "with_const_width", "random-sorted-with-repeats"], "reps": reps}));
}

// ---------------------------------------------------------------------------------------------
// C13 / C17 beyond TLC's 32-bit integers: counts up to 2^62 (reached by `*= k`, by `+=` and by
// merging a histogram with its own clone), against the bin semantics of Histogram.tla kept in
// u128 -- add increments one bin, merge / += add bin-wise, *= k multiplies every bin, reset
// zeroes -- and the view definitions (tolerance of the variance: count * (1 - count * (1/total)) carries
// two roundings of relative size u before the cancellation, i.e. up to 2 u count + u variance absolute;
// 4 u total covers it) -- variance(i) = n_i (N - n_i) / N, normalized(i) = n_i / w_i.
use crate::exact::U;

use crate::hist::hexact_variance;

fn big_family<H: HistT>(rng: &mut Xoshiro256PlusPlus, reps: usize, prop: &str, rep: &mut Report) {
    let n = H::LEN;
    for r in 0..reps {
        rep.behaviours += 1;
        rep.nontrivial.insert(hash_str(&format!("big{}{}", H::NAME, r)));
        let edges: Vec<f64> = (0..=n).map(|i| i as f64 * [1.0, 0.5, 3.0][r % 3]).collect();
        let mut h = match H::from_ranges(edges.clone()) {
            Ok(h) => h,
            Err(_) => continue,
        };
        let mut model: Vec<u128> = vec![0; n];
        let mut history: Vec<String> = Vec::new();
        let limit: u128 = 1 << 62;
        // every third history ends with a run of single adds into distinct bins after the counts
        // have passed 2^53: one heavy bin and several light ones (a total accumulated in f64
        // would no longer see the light ones)
        let tail_from = if r % 3 == 0 { 8 } else { usize::MAX };
        for step in 0..14 {
            let total: u128 = model.iter().sum();
            let mut c = rng.random_range(0..100);
            if step >= tail_from {
                c = 0;
            } else if tail_from != usize::MAX && step >= 4 && total > 0 && total < (1u128 << 53) {
                c = 50; // keep multiplying until the counts are beyond 2^53
            }
            let res = std::panic::catch_unwind(std::panic::AssertUnwindSafe(|| {
                if c < 45 || total == 0 {
                    let i = if step >= tail_from { (step - tail_from + 1) % n } else { rng.random_range(0..n) };
                    let x = edges[i] + (edges[i + 1] - edges[i]) * 0.25;
                    let _ = h.add(x);
                    model[i] += 1;
                    history.push(format!("add(bin {i})"));
                } else if c < 75 {
                    let k: u64 = [2, 3, 1000, 1 << 20, 1 << 31, (1u64 << 32) + 1][rng.random_range(0..6)];
                    if total * (k as u128) < limit {
                        h.mul_assign(k);
                        for m in model.iter_mut() {
                            *m *= k as u128;
                        }
                        history.push(format!("*= {k}"));
                    }
                } else if c < 90 {
                    if total * 2 < limit {
                        let cl = h.clone();
                        if step % 2 == 0 {
                            h.merge(&cl);
                        } else {
                            h.add_assign(&cl);
                        }
                        for m in model.iter_mut() {
                            *m *= 2;
                        }
                        history.push("merge / += with its own clone".into());
                    }
                } else {
                    h.reset();
                    for m in model.iter_mut() {
                        *m = 0;
                    }
                    history.push("reset".into());
                }
            }));
            let fail = |rep: &mut Report, acc: &str, what: String| {
                rep.violation(json!({"property": prop, "family": "histogram", "type": H::NAME, "embedding": "large counts",
                    "history": {"edges": edges, "ops": history, "model_bins": model.iter().map(|m| m.to_string()).collect::<Vec<_>>()},
                    "accessor": acc, "what": what, "signature": format!("{}|{}|big-{}", prop, H::NAME, acc)}));
            };
            if res.is_err() {
                fail(rep, "panic", "the code under test panicked".into());
                break;
            }
            let total: u128 = model.iter().sum();
            let bins = h.bins();
            rep.evaluations += 1;
            if prop == "C13" && bins.iter().zip(&model).any(|(b, m)| *b as u128 != *m) {
                fail(rep, "bins", format!("bins {:?} but the bin-wise operations give {:?}", bins, model));
                break;
            }
            let views = std::panic::catch_unwind(std::panic::AssertUnwindSafe(|| (h.variances(), (0..n).map(|i| h.variance(i)).collect::<Vec<f64>>(), h.normalized())));
            let (vs, v1, norm) = match views {
                Ok(v) => v,
                Err(_) => {
                    fail(rep, "panic", "variance / variances / normalized_bins panicked".into());
                    break;
                }
            };
            if total == 0 {
                continue;
            }
            let t = total as f64;
            for i in 0..n {
                rep.evaluations += 3;
                let want = hexact_variance(model[i], total);
                for (nm, v) in [("variances", vs[i]), ("variance", v1[i])] {
                    let bad = if prop == "C17" { !(v >= -4.0 * U * t && v <= t / 4.0 * (1.0 + 4.0 * U)) } else { !((v - want).abs() <= 4.0 * U * t) };
                    if bad {
                        fail(rep, nm, format!("{nm}[{i}] = {:e} but n (N - n) / N = {:e} for n = {}, N = {} (range [0, N/4])", v, want, model[i], total));
                        return;
                    }
                }
                if prop == "C13" {
                    let w = edges[i + 1] - edges[i];
                    let wantn = (model[i] as f64) / w;
                    if !((norm[i] - wantn).abs() <= 4.0 * U * wantn.abs()) {
                        fail(rep, "normalized_bins", format!("normalized_bins[{i}] = {:e} but n / w = {:e}", norm[i], wantn));
                        return;
                    }
                }
            }
        }
    }
}

/// One heavy bin of exactly 2^53 (one add, `*= 2^53`) and one add in each of several other bins,
/// heavy bin first and heavy bin last: the total is representable only as an integer, and a total
/// accumulated in f64 stops seeing the single counts.  At this size the tolerance of the variance
/// (4 u N = 4) is still below the effect (the number of light bins).
fn heavy_light<H: HistT>(prop: &str, rep: &mut Report) {
    let n = H::LEN;
    if n < 7 {
        return;
    }
    for heavy_first in [true, false] {
        rep.behaviours += 1;
        rep.nontrivial.insert(hash_str(&format!("heavylight{}{}", H::NAME, heavy_first)));
        let edges: Vec<f64> = (0..=n).map(|i| i as f64).collect();
        let heavy = if heavy_first { 0 } else { n - 1 };
        let r = std::panic::catch_unwind(std::panic::AssertUnwindSafe(|| {
            let mut h = H::from_ranges(edges.clone()).ok().unwrap();
            let _ = h.add(heavy as f64 + 0.5);
            h.mul_assign(1u64 << 53);
            let mut model: Vec<u128> = vec![0; n];
            model[heavy] = 1u128 << 53;
            for i in 0..n {
                if i != heavy && i % 2 == 0 || (i + 1 == n - 1 && i != heavy) {
                    let _ = h.add(i as f64 + 0.5);
                    model[i] += 1;
                }
            }
            (h.bins(), h.variances(), (0..n).map(|i| h.variance(i)).collect::<Vec<f64>>(), model)
        }));
        let fail = |rep: &mut Report, acc: &str, what: String| {
            rep.violation(json!({"property": prop, "family": "histogram", "type": H::NAME, "embedding": "large counts",
                "history": {"edges": "0..LEN", "ops": ["add(heavy bin)", "*= 2^53", "one add in every other even bin"], "heavy_first": heavy_first},
                "accessor": acc, "what": what, "signature": format!("{}|{}|heavylight-{}", prop, H::NAME, acc)}));
        };
        match r {
            Err(_) => fail(rep, "panic", "the code under test panicked".into()),
            Ok((bins, vs, v1, model)) => {
                let total: u128 = model.iter().sum();
                let t = total as f64;
                rep.evaluations += 2 * n as u64 + 1;
                if prop == "C13" && bins.iter().zip(&model).any(|(b, m)| *b as u128 != *m) {
                    fail(rep, "bins", format!("bins {:?} but the operations give {:?}", bins, model));
                    continue;
                }
                for i in 0..n {
                    let want = hexact_variance(model[i], total);
                    for (nm, v) in [("variances", vs[i]), ("variance", v1[i])] {
                        let bad = if prop == "C17" { !(v >= -4.0 * U * t && v <= t / 4.0 * (1.0 + 4.0 * U)) } else { !((v - want).abs() <= 4.0 * U * t) };
                        if bad {
                            fail(rep, nm, format!("{nm}[{i}] = {:e} but n (N - n) / N = {:e} for n = {}, N = {}", v, want, model[i], total));
                            return;
                        }
                    }
                }
            }
        }
    }
}

/// from_ranges with a single offence at every position (C12), for the sizes TLC does not enumerate in
/// the quick tier: a sorted list with one descent at position k, one NaN at position k, both, a list cut
/// to k values, and surplus values behind a valid list.  Expected by FromRanges of Histogram.tla: the error
/// of the first offending position; NotEnoughRanges only if nothing offends before the list ends.
fn build_scan<H: HistT>(rep: &mut Report) {
    let len = H::LEN;
    let base: Vec<f64> = (0..=len + 2).map(|i| i as f64 * 0.5 - 3.0).collect();
    let mut case = |list: Vec<f64>, want: Result<(), &'static str>, what: String| {
        rep.behaviours += 1;
        rep.evaluations += 1;
        let got = std::panic::catch_unwind(std::panic::AssertUnwindSafe(|| H::from_ranges(list.clone())));
        let bad = match (&got, &want) {
            (Ok(Ok(h)), Ok(())) => !(h.ranges().iter().zip(list.iter()).all(|(a, b)| a.to_bits() == b.to_bits()) && h.bins().iter().all(|&c| c == 0)),
            (Ok(Err(e)), Err(w)) => e != w,
            _ => true,
        };
        if bad {
            let g = match &got { Ok(Ok(_)) => "Ok".to_string(), Ok(Err(e)) => e.to_string(), Err(_) => "panic".to_string() };
            rep.violation(json!({"property": "C12", "family": "buildscan", "type": H::NAME, "embedding": "tokens",
                "history": {"case": what, "len": len}, "accessor": "from_ranges",
                "what": format!("from_ranges: {} gives {} but the first offending position calls for {:?}", what, g, want),
                "signature": format!("C12|{}|buildscan", H::NAME)}));
        }
    };
    case(base[..=len].to_vec(), Ok(()), "a valid list".into());
    case(base.clone(), Ok(()), "a valid list with two surplus values".into());
    for k in 0..=len {
        if k >= 1 {
            let mut v = base[..=len].to_vec();
            v[k] = v[k - 1] - 1.0;
            // everything after the descent stays sorted relative to v[k-1]: the only offence is at k ... unless a later
            // value is below v[k]; it is not, the tail continues the base
            case(v.clone(), Err("NotSorted"), format!("descent at position {k}"));
            if k + 1 <= len {
                let mut w = v.clone();
                w[k + 1] = f64::NAN;
                case(w, Err("NotSorted"), format!("descent at position {k}, NaN behind it"));
            }
            if k >= 2 {
                let mut w = v.clone();
                w[k - 2] = f64::NAN;
                case(w, Err("NaN"), format!("NaN at position {}, descent at {k}", k - 2));
            }
            let mut cut = v.clone();
            cut.truncate(k + 1);
            if k < len {
                case(cut, Err("NotSorted"), format!("list of {} values with a descent at its last position", k + 1));
            }
        }
        let mut v = base[..=len].to_vec();
        v[k] = f64::NAN;
        case(v, Err("NaN"), format!("NaN at position {k}"));
        case(base[..k].to_vec(), Err("NotEnoughRanges"), format!("a sorted list of {k} values"));
    }
}

pub fn direct_buildscan(rep: &mut Report) {
    build_scan::<h1::Histogram>(rep);
    build_scan::<h4::Histogram>(rep);
    build_scan::<average::Histogram10>(rep);
    build_scan::<h100::Histogram>(rep);
    rep.sample(json!({"family": "buildscan", "sizes": [1, 4, 10, 100]}));
}

pub fn direct_histbig(prop: &str, seed: u64, reps: usize, rep: &mut Report) {
    heavy_light::<average::Histogram10>(prop, rep);
    heavy_light::<h100::Histogram>(prop, rep);
    let mut rng = Xoshiro256PlusPlus::seed_from_u64(seed);
    big_family::<h2::Histogram>(&mut rng, reps, prop, rep);
    big_family::<h3::Histogram>(&mut rng, reps, prop, rep);
    big_family::<average::Histogram10>(&mut rng, reps, prop, rep);
    big_family::<h100::Histogram>(&mut rng, reps / 4, prop, rep);
    rep.sample(json!({"family": "histogram large counts", "ops": ["add", "*= k (k up to 2^32+1)", "merge / += with its own clone", "reset"], "count_limit": "2^62", "reps": reps}));
}
