//! The stable histogram types (define_histogram! instantiations and the crate's Histogram10)
//! behind the `HistT` trait of hist.rs.

use crate::hist::*;
use crate::report::*;
use average::{Histogram as HistTrait, InvalidRangeError, Merge};
use serde_json::Value;

pub mod h1 {
    average::define_histogram!(hist, 1);
    pub use hist::Histogram;
}
pub mod h2 {
    average::define_histogram!(hist, 2);
    pub use hist::Histogram;
}
pub mod h3 {
    average::define_histogram!(hist, 3);
    pub use hist::Histogram;
}
pub mod h4 {
    average::define_histogram!(hist, 4);
    pub use hist::Histogram;
}
pub mod h10 {
    average::define_histogram!(hist, 10);
    pub use hist::Histogram;
}
pub mod h100 {
    average::define_histogram!(hist, 100);
    pub use hist::Histogram;
}

fn ename(e: InvalidRangeError) -> &'static str {
    match e {
        InvalidRangeError::NaN => "NaN",
        InvalidRangeError::NotSorted => "NotSorted",
        InvalidRangeError::NotEnoughRanges => "NotEnoughRanges",
    }
}

macro_rules! hist_impl {
    ($t:ty, $len:expr, $name:expr) => {
        impl HistT for $t {
            const LEN: usize = $len;
            const NAME: &'static str = $name;
            fn from_ranges(v: Vec<f64>) -> Result<Self, &'static str> {
                <$t>::from_ranges(v).map_err(ename)
            }
            fn with_const_width(a: f64, b: f64) -> Self {
                <$t>::with_const_width(a, b)
            }
            fn find(&self, x: f64) -> Result<usize, ()> {
                <$t>::find(self, x).map_err(|_| ())
            }
            fn add(&mut self, x: f64) -> Result<(), ()> {
                <$t>::add(self, x).map_err(|_| ())
            }
            fn bins(&self) -> Vec<u64> {
                HistTrait::bins(self).to_vec()
            }
            fn ranges(&self) -> Vec<f64> {
                <$t>::ranges(self).to_vec()
            }
            fn range_min(&self) -> f64 {
                <$t>::range_min(self)
            }
            fn range_max(&self) -> f64 {
                <$t>::range_max(self)
            }
            fn merge(&mut self, o: &Self) {
                Merge::merge(self, o)
            }
            fn add_assign(&mut self, o: &Self) {
                *self += o;
            }
            fn mul_assign(&mut self, k: u64) {
                *self *= k;
            }
            fn reset(&mut self) {
                <$t>::reset(self)
            }
            fn items(&self) -> Vec<((f64, f64), u64)> {
                self.into_iter().collect()
            }
            fn iter_items(&self) -> Vec<((f64, f64), u64)> {
                self.iter().collect()
            }
            fn widths(&self) -> Vec<f64> {
                HistTrait::widths(self).collect()
            }
            fn centers(&self) -> Vec<f64> {
                HistTrait::centers(self).collect()
            }
            fn normalized(&self) -> Vec<f64> {
                HistTrait::normalized_bins(self).collect()
            }
            fn variances(&self) -> Vec<f64> {
                HistTrait::variances(self).collect()
            }
            fn variance(&self, i: usize) -> f64 {
                HistTrait::variance(self, i)
            }
            fn to_json(&self) -> Option<String> {
                serde_json::to_string(self).ok()
            }
            fn from_json(s: &str) -> Self {
                serde_json::from_str(s).unwrap()
            }
            fn debug(&self) -> String {
                format!("{:?}", self)
            }
        }
    };
}

hist_impl!(h1::Histogram, 1, "h1");
hist_impl!(h2::Histogram, 2, "h2");
hist_impl!(h3::Histogram, 3, "h3");
hist_impl!(h4::Histogram, 4, "h4");
hist_impl!(h10::Histogram, 10, "h10");
hist_impl!(h100::Histogram, 100, "h100");
hist_impl!(average::Histogram10, 10, "Histogram10");


pub fn process_line(v: &Value, want: &HWant, rep: &mut Report) {
    let kept_before = rep.violations.len();
    if !line_prologue(v, rep) {
        return;
    }
    match v["len"].as_u64().unwrap() {
        1 => dispatch::<h1::Histogram>(v, want, rep),
        2 => dispatch::<h2::Histogram>(v, want, rep),
        3 => dispatch::<h3::Histogram>(v, want, rep),
        4 => dispatch::<h4::Histogram>(v, want, rep),
        10 => {
            dispatch::<h10::Histogram>(v, want, rep);
            dispatch::<average::Histogram10>(v, want, rep);
        }
        100 => dispatch::<h100::Histogram>(v, want, rep),
        n => panic!("no histogram type with LEN {n}"),
    }
    for x in rep.violations.iter_mut().skip(kept_before) {
        x["line"] = v.clone();
    }
}
