//! Spec -> implementation replay for Min / Max (Gen_MinMax).

use crate::report::*;
use average::{Estimate, Max, Merge, Min};
use serde_json::{json, Value};

#[derive(Clone, Debug)]
enum Op {
    Add(usize, String),
    From(usize, String),
    Merge(usize, usize),
    Clone(usize, usize),
    Fresh(usize),
    Ckpt(usize),
}

fn parse_ops(h: &Value) -> Vec<Op> {
    h.as_array()
        .unwrap()
        .iter()
        .map(|e| {
            let a = e.as_array().unwrap();
            let i = |k: usize| a[k].as_i64().unwrap() as usize - 1;
            match a[0].as_str().unwrap() {
                "add" => Op::Add(i(1), a[2].as_str().unwrap().to_string()),
                "from" => Op::From(i(1), a[2].as_str().unwrap().to_string()),
                "merge" => Op::Merge(i(1), i(2)),
                "clone" => Op::Clone(i(1), i(2)),
                "fresh" => Op::Fresh(i(1)),
                "ckpt" => Op::Ckpt(i(1)),
                o => panic!("unknown op {o}"),
            }
        })
        .collect()
}

/// token -> f64 under a scale for the finite non-zero tokens
fn tok(t: &str, scale: f64) -> f64 {
    match t {
        "ninf" => f64::NEG_INFINITY,
        "m1" => -scale,
        "nz" => -0.0,
        "pz" => 0.0,
        "p1" => scale,
        "pinf" => f64::INFINITY,
        "nan" => f64::NAN,
        _ => panic!("token {t}"),
    }
}

fn rank_val(r: i64, scale: f64) -> f64 {
    match r {
        -1073741824 => f64::NEG_INFINITY,
        -1 => -scale,
        0 => 0.0,
        1 => scale,
        1073741824 => f64::INFINITY,
        _ => panic!("rank {r}"),
    }
}

#[derive(Clone)]
struct Pair {
    mn: Min,
    mx: Max,
}

impl Pair {
    fn new() -> Pair {
        Pair { mn: Min::new(), mx: Max::new() }
    }
    /// the same empty estimators through Default
    fn default_() -> Pair {
        Pair { mn: Min::default(), mx: Max::default() }
    }
}

pub struct MWant {
    pub prop: String,
    pub scales: Vec<f64>,
}

fn viol(rep: &mut Report, prop: &str, ty: &str, scale: f64, h: &Value, slot: usize, acc: &str, what: String) {
    rep.violation(json!({
        "property": prop, "family": "minmax", "type": ty, "embedding": format!("scale={:e}", scale),
        "history": h, "slot": slot + 1, "accessor": acc, "what": what,
        "signature": format!("{}|{}|{}", prop, ty, acc),
    }));
}

fn same(a: f64, b: f64) -> bool {
    // equal as numbers; NaN never expected
    a == b
}

fn replay(h: &Value, ops: &[Op], specs: &[Value], scale: f64, want: &MWant, rep: &mut Report, parity: usize) {
    let k = specs.len();
    rep.replays += 1;
    let prop = want.prop.as_str();
    let run = |roundtrip: bool, rep: &mut Report| -> (Vec<Pair>, Vec<Vec<String>>, Vec<bool>) {
        let mut w: Vec<Pair> = (0..k).map(|i| if i % 2 == 0 { Pair::new() } else { Pair::default_() }).collect();
        let mut ghost: Vec<Vec<String>> = vec![vec![]; k];
        let mut addonly = vec![true; k];
        for (step, op) in ops.iter().enumerate() {
            match op {
                Op::Add(s, t) => {
                    // "nan" is any NaN: quiet NaNs of both signs (a total order puts the
                    // sign-negative one below -inf)
                    let x = if t == "nan" && (step + parity) % 2 == 1 { -f64::NAN } else { tok(t, scale) };
                    Estimate::add(&mut w[*s].mn, x);
                    Estimate::add(&mut w[*s].mx, x);
                    ghost[*s].push(t.clone());
                }
                Op::From(s, t) => {
                    w[*s] = Pair { mn: Min::from_value(tok(t, scale)), mx: Max::from_value(tok(t, scale)) };
                    ghost[*s] = vec![t.clone()];
                    addonly[*s] = false;
                }
                Op::Merge(d, s) => {
                    let src = w[*s].clone();
                    let before_d = (w[*d].mn.min(), w[*d].mx.max());
                    w[*d].mn.merge(&src.mn);
                    w[*d].mx.merge(&src.mx);
                    if prop == "C11" && !roundtrip {
                        rep.evaluations += 2;
                        let src_empty = ghost[*s].is_empty();
                        let dst_empty = ghost[*d].is_empty();
                        if (w[*s].mn.min().to_bits(), w[*s].mx.max().to_bits()) != (src.mn.min().to_bits(), src.mx.max().to_bits()) {
                            viol(rep, "C11", "Min/Max", scale, h, *d, "merge", format!("merge modified its argument at step {}", step + 1));
                        }
                        if src_empty && (w[*d].mn.min().to_bits(), w[*d].mx.max().to_bits()) != (before_d.0.to_bits(), before_d.1.to_bits()) {
                            viol(rep, "C11", "Min/Max", scale, h, *d, "merge", format!("merging an empty estimator changed the destination at step {}: {:?} -> {:?}", step + 1, before_d, (w[*d].mn.min(), w[*d].mx.max())));
                        }
                        if dst_empty && (w[*d].mn.min().to_bits(), w[*d].mx.max().to_bits()) != (src.mn.min().to_bits(), src.mx.max().to_bits()) {
                            viol(rep, "C11", "Min/Max", scale, h, *d, "merge", format!("merging into an empty estimator did not reproduce the source at step {}", step + 1));
                        }
                    }
                    let g = ghost[*s].clone();
                    ghost[*d].extend(g);
                    addonly[*d] = false;
                }
                Op::Clone(d, s) => {
                    // Clone::clone / Clone::clone_from alternately: the same step of the specification
                    let src = w[*s].clone();
                    if (step + parity) % 2 == 1 {
                        w[*d].mn.clone_from(&src.mn);
                        w[*d].mx.clone_from(&src.mx);
                    } else {
                        w[*d] = src;
                    }
                    ghost[*d] = ghost[*s].clone();
                    addonly[*d] = addonly[*s];
                }
                Op::Fresh(s) => {
                    w[*s] = if step % 2 == 0 { Pair::new() } else { Pair::default_() };
                    ghost[*s].clear();
                    addonly[*s] = true;
                }
                Op::Ckpt(s) => {
                    if roundtrip {
                        // finite-field precondition of C18: JSON cannot carry +-inf
                        let (a, b) = (w[*s].mn.min(), w[*s].mx.max());
                        if a.is_finite() && b.is_finite() {
                            let jm = serde_json::to_string(&w[*s].mn).unwrap();
                            let jx = serde_json::to_string(&w[*s].mx).unwrap();
                            let rm: Min = serde_json::from_str(&jm).unwrap();
                            let rx: Max = serde_json::from_str(&jx).unwrap();
                            rep.evaluations += 2;
                            if rm.min().to_bits() != a.to_bits() || w[*s].mn.min().to_bits() != a.to_bits() {
                                viol(rep, "C18", "Min", scale, h, *s, "roundtrip", format!("restored Min differs: {} vs {}", fmt_f(rm.min()), fmt_f(a)));
                            }
                            if rx.max().to_bits() != b.to_bits() || w[*s].mx.max().to_bits() != b.to_bits() {
                                viol(rep, "C18", "Max", scale, h, *s, "roundtrip", format!("restored Max differs: {} vs {}", fmt_f(rx.max()), fmt_f(b)));
                            }
                            let (mut rm, mut rx) = (rm, rx);
                            if let (Ok(pm), Ok(px)) = (crate::posfmt::roundtrip(&w[*s].mn), crate::posfmt::roundtrip(&w[*s].mx)) {
                                rep.evaluations += 2;
                                if pm.min().to_bits() != a.to_bits() || px.max().to_bits() != b.to_bits() {
                                    viol(rep, "C18", "Min/Max", scale, h, *s, "roundtrip (positional format)", format!("restored extremes {} / {} differ from {} / {}", fmt_f(pm.min()), fmt_f(px.max()), fmt_f(a), fmt_f(b)));
                                }
                                if step % 2 == 1 {
                                    rm = pm;
                                    rx = px;
                                }
                            } else {
                                rep.bump("positional_format_not_supported", 1);
                            }
                            w[*s] = Pair { mn: rm, mx: rx };
                        } else {
                            rep.bump("ckpt_skipped_nonfinite_field", 1);
                        }
                    }
                }
            }
        }
        (w, ghost, addonly)
    };
    let (w, ghost, addonly) = run(false, rep);
    for s in 0..k {
        let sd: Vec<String> = specs[s]["data"].as_array().unwrap().iter().map(|x| x.as_str().unwrap().to_string()).collect();
        if sd != ghost[s] {
            rep.tool_errors.push(format!("ghost data mismatch slot {s}"));
            return;
        }
    }
    if prop == "C14" || prop == "C16" || prop == "C20" {
        for s in 0..k {
            let emn = rank_val(specs[s]["mn"].as_i64().unwrap(), scale);
            let emx = rank_val(specs[s]["mx"].as_i64().unwrap(), scale);
            if prop == "C16" && !ghost[s].is_empty() {
                continue;
            }
            rep.evaluations += 2;
            if !same(w[s].mn.min(), emn) {
                viol(rep, prop, "Min", scale, h, s, "min", format!("min() = {} but the smallest non-NaN observation is {}", fmt_f(w[s].mn.min()), fmt_f(emn)));
            }
            if !same(w[s].mx.max(), emx) {
                viol(rep, prop, "Max", scale, h, s, "max", format!("max() = {} but the largest non-NaN observation is {}", fmt_f(w[s].mx.max()), fmt_f(emx)));
            }
            if w[s].mn.estimate().to_bits() != w[s].mn.min().to_bits() || w[s].mx.estimate().to_bits() != w[s].mx.max().to_bits() {
                viol(rep, prop, "Min/Max", scale, h, s, "estimate", "estimate() differs from the headline accessor".into());
            }
            if prop == "C16" {
                // an empty estimator that comes back from a serde round trip is still an empty estimator
                // (JSON cannot carry the infinite sentinels, so in this tree the round trip is refused;
                // if it is ever accepted, what it returns has seen no observation either)
                let rm: Option<Min> = serde_json::to_string(&w[s].mn).ok().and_then(|j| serde_json::from_str(&j).ok());
                let rx: Option<Max> = serde_json::to_string(&w[s].mx).ok().and_then(|j| serde_json::from_str(&j).ok());
                if let Some(r) = rm {
                    rep.evaluations += 1;
                    if !same(r.min(), emn) {
                        viol(rep, prop, "Min", scale, h, s, "min after serde", format!("an empty Min restored from its own serialised form reports min() = {}", fmt_f(r.min())));
                    }
                } else {
                    rep.bump("empty_roundtrip_refused", 1);
                }
                if let Some(r) = rx {
                    rep.evaluations += 1;
                    if !same(r.max(), emx) {
                        viol(rep, prop, "Max", scale, h, s, "max after serde", format!("an empty Max restored from its own serialised form reports max() = {}", fmt_f(r.max())));
                    }
                } else {
                    rep.bump("empty_roundtrip_refused", 1);
                }
            }
            // ingestion paths on the add-only slots: collect (value / reference), extend (Min only:
            // Max has no Extend impl in this tree)
            if addonly[s] && prop != "C16" {
                let xs: Vec<f64> = ghost[s].iter().map(|t| tok(t, scale)).collect();
                let c1: Min = xs.iter().copied().collect();
                let c2: Min = xs.iter().collect();
                let mut c3 = Min::new();
                c3.extend(xs.iter().copied());
                let mut c4 = Min::default();
                let half = xs.len() / 2;
                c4.extend(xs[..half].iter());
                c4.extend(xs[half..].iter());
                let d1: Max = xs.iter().copied().collect();
                let d2: Max = xs.iter().collect();
                rep.evaluations += 6;
                for (nm, v) in [("collect(values)", c1.min()), ("collect(references)", c2.min()), ("extend(values)", c3.min()), ("extend(references) in two pieces", c4.min())] {
                    if !same(v, emn) {
                        viol(rep, prop, "Min", scale, h, s, nm, format!("{nm} gives min() = {} but expected {}", fmt_f(v), fmt_f(emn)));
                    }
                }
                for (nm, v) in [("collect(values)", d1.max()), ("collect(references)", d2.max())] {
                    if !same(v, emx) {
                        viol(rep, prop, "Max", scale, h, s, nm, format!("{nm} gives max() = {} but expected {}", fmt_f(v), fmt_f(emx)));
                    }
                }
            }
        }
    }
    if prop == "C18" && ops.iter().any(|o| matches!(o, Op::Ckpt(_))) {
        let (w1, _, _) = run(true, rep);
        for s in 0..k {
            rep.evaluations += 2;
            if w1[s].mn.min().to_bits() != w[s].mn.min().to_bits() || w1[s].mx.max().to_bits() != w[s].mx.max().to_bits() {
                viol(rep, "C18", "Min/Max", scale, h, s, "continue", "continuing on the restored copy diverged from the uninterrupted computation".into());
            }
        }
    }
}

pub fn process_line(v: &Value, want: &MWant, rep: &mut Report) {
    let h = &v["h"];
    let ops = parse_ops(h);
    let specs: Vec<Value> = v["s"].as_array().unwrap().clone();
    let hs = hash_str(&h.to_string());
    rep.behaviours += 1;
    let kept_before = rep.violations.len();
    if !rep.distinct.insert(hs) {
        rep.bump("duplicate_histories", 1);
        return;
    }
    // non-trivial: at least two distinct non-NaN tokens somewhere
    if specs.iter().any(|s| s["mn"].as_i64() != s["mx"].as_i64() && s["mn"].as_i64() != Some(1073741824)) {
        rep.nontrivial.insert(hs);
    }
    if rep.nontrivial.contains(&hs) {
        rep.sample(json!({"history": h, "spec": specs}));
    }
    // both Clone variants / both NaN signs at the complementary positions
    let parities: &[usize] = if ops.iter().any(|o| matches!(o, Op::Clone(_, _)) || matches!(o, Op::Add(_, t) if t == "nan")) { &[0, 1] } else { &[0] };
    for &sc in &want.scales {
        for &parity in parities {
            let r = std::panic::catch_unwind(std::panic::AssertUnwindSafe(|| replay(h, &ops, &specs, sc, want, &mut *rep, parity)));
            if r.is_err() {
                viol(rep, &want.prop, "Min/Max", sc, h, 0, "panic", "the code under test panicked".into());
            }
        }
    }
    for x in rep.violations.iter_mut().skip(kept_before) {
        x["line"] = v.clone();
    }
}
