//! The histogram trace recorder, generic over `HistT` (shared with the nightly harness, which runs it
//! on `histogram_const::Histogram<LEN>`): random build / add / merge / += / *= / reset / clone
//! histories, every event logged with the integer observations Trace_Histogram.tla validates.

use crate::hist::{self, HistT};
use crate::report::*;
use rand::Rng;
use rand_xoshiro::Xoshiro256PlusPlus;
use serde_json::json;
use std::io::Write;
use std::panic::{catch_unwind, AssertUnwindSafe};

const TOKENS: [&str; 9] = ["ninf", "m1", "nz", "pz", "half", "one", "two", "pinf", "nan"];
const SAMPLES: [i64; 27] = [424242, 424243, -1000, 1000, -999, 999, -20, 0, 10, 20, 40, -21, -1, 9, 19, 39, -19, 1, 11, 21, 41, -30, -10, 5, 15, 30, 50];

fn tok_rank(t: &str) -> i32 {
    match t {
        "ninf" => -100,
        "m1" => -2,
        "nz" | "pz" => 0,
        "half" => 1,
        "one" => 2,
        "two" => 4,
        "pinf" => 100,
        _ => 0,
    }
}

fn random_list(rng: &mut Xoshiro256PlusPlus, len: usize) -> Vec<&'static str> {
    // mostly valid (sorted, NaN-free, long enough), sometimes not
    let kind = rng.random_range(0..10);
    let n = match kind {
        0 => rng.random_range(0..=len),   // too short
        1 => len + 1 + rng.random_range(1..3), // surplus
        _ => len + 1,
    };
    let mut v: Vec<&'static str> = (0..n).map(|_| TOKENS[rng.random_range(0..8)]).collect();
    if kind != 2 {
        v.sort_by_key(|t| tok_rank(t));
    }
    if kind == 3 && n > 0 {
        let i = rng.random_range(0..n);
        v[i] = "nan";
    }
    if kind == 4 && n > 1 {
        // a few distinct values only: long runs of repeated edges
        let a = TOKENS[rng.random_range(0..8)];
        let cut = rng.random_range(0..n);
        for (i, x) in v.iter_mut().enumerate() {
            if i >= cut {
                *x = a;
            }
        }
        v.sort_by_key(|t| tok_rank(t));
    }
    v
}

/// variance(i) agrees with variances()[i] (NaN with NaN) and lies in [0, total/4] (C13, C17)
fn views_ok<H: HistT>(h: &H) -> bool {
    let vs = h.variances();
    let total: u64 = h.bins().iter().sum();
    let t = total as f64;
    (0..H::LEN).all(|i| {
        let v = h.variance(i);
        let agree = (v.is_nan() && vs[i].is_nan()) || (v - vs[i]).abs() <= 8.0 * 1.1102230246251565e-16 * t;
        let range = total == 0 || (v >= -4.0 * 1.1102230246251565e-16 * t && v <= t / 4.0 * (1.0 + 1e-15));
        agree && range
    })
}

pub fn record_hist_typed<H: HistT>(out: &mut impl Write, rng: &mut Xoshiro256PlusPlus, n: usize, rep: &mut Report) {
    let mut w: [Option<H>; 2] = [None, None];
    writeln!(out, "{}", json!({"op": "restart"})).unwrap();
    let mut events = 0;
    while events < n {
        let choice = rng.random_range(0..100);
        let s = rng.random_range(0..2usize);
        events += 1;
        rep.evaluations += 1;
        if choice < 6 || w[s].is_none() {
            let list = if w[1 - s].is_some() && rng.random_range(0..3) == 0 {
                // same edges as the other slot, so that merges succeed
                w[1 - s].as_ref().unwrap().ranges().iter().map(|x| TOKENS.iter().find(|t| hist::edge_tok(t).to_bits() == x.to_bits()).copied().unwrap()).collect()
            } else {
                random_list(rng, H::LEN)
            };
            let vals: Vec<f64> = list.iter().map(|t| hist::edge_tok(t)).collect();
            match H::from_ranges(vals) {
                Ok(h) => {
                    let edges: Vec<&str> = h.ranges().iter().map(|x| TOKENS.iter().find(|t| hist::edge_tok(t).to_bits() == x.to_bits()).copied().unwrap_or("?")).collect();
                    writeln!(out, "{}", json!({"op": "build", "slot": s + 1, "list": list, "ok": true, "edges": edges, "bins": h.bins()})).unwrap();
                    w[s] = Some(h);
                }
                Err(e) => {
                    let en = e;
                    writeln!(out, "{}", json!({"op": "build", "slot": s + 1, "list": list, "ok": false, "err": en})).unwrap();
                }
            }
        } else if choice < 80 {
            let x = SAMPLES[rng.random_range(0..SAMPLES.len())];
            let h = w[s].as_mut().unwrap();
            let xv = hist::sample(x);
            let f = catch_unwind(AssertUnwindSafe(|| h.find(xv)));
            let r = catch_unwind(AssertUnwindSafe(|| h.add(xv)));
            let ok = matches!(r, Ok(Ok(())));
            let bin = match f {
                Ok(Ok(i)) if ok => i + 1,
                _ => 0,
            };
            let bins = h.bins();
            let total: u64 = bins.iter().sum();
            writeln!(out, "{}", json!({"op": "add", "slot": s + 1, "x": x, "ok": ok, "bin": bin, "bins": bins, "total": total, "panicked": r.is_err(), "views_ok": views_ok(h)})).unwrap();
        } else if choice < 90 {
            if w[1 - s].is_none() {
                continue;
            }
            let src = w[1 - s].clone().unwrap();
            let is_merge = choice < 85;
            let h = w[s].as_mut().unwrap();
            let r = catch_unwind(AssertUnwindSafe(|| if is_merge { h.merge(&src) } else { h.add_assign(&src) }));
            let vo = views_ok(w[s].as_ref().unwrap()) && views_ok(w[1 - s].as_ref().unwrap());
            writeln!(out, "{}", json!({"op": if is_merge { "merge" } else { "addassign" }, "dst": s + 1, "src": 2 - s, "panic": r.is_err(),
                "bins": w[s].as_ref().unwrap().bins(), "srcbins": w[1 - s].as_ref().unwrap().bins(), "views_ok": vo})).unwrap();
        } else if choice < 94 {
            // 0, 1, powers of two, odd and even composite multipliers (a shift is right only for the powers of two)
            let k = [0u64, 1, 2, 3, 6, 10, 12, 7, 4][rng.random_range(0..9)];
            let h = w[s].as_mut().unwrap();
            if h.bins().iter().sum::<u64>() > 100_000 {
                continue;
            }
            h.mul_assign(k);
            writeln!(out, "{}", json!({"op": "mul", "slot": s + 1, "k": k, "bins": h.bins()})).unwrap();
        } else if choice < 97 {
            let h = w[s].as_mut().unwrap();
            h.reset();
            writeln!(out, "{}", json!({"op": "reset", "slot": s + 1, "bins": h.bins()})).unwrap();
        } else {
            if w[1 - s].is_none() {
                continue;
            }
            // Clone::clone / Clone::clone_from alternately
            let src = w[1 - s].clone();
            if rng.random_range(0..2) == 0 {
                w[s].clone_from(&src);
            } else {
                w[s] = src;
            }
            writeln!(out, "{}", json!({"op": "clone", "dst": s + 1, "src": 2 - s, "bins": w[s].as_ref().unwrap().bins()})).unwrap();
        }
    }
}

