//! C20: every ingestion path builds the same estimator; concatenate! adds nothing.
//!
//! Input: behaviours of Gen_Ingest (a start step new/default/collect followed by extend/add
//! steps).  Each is executed through the real FromIterator / Extend / add implementations and
//! compared, bit for bit on every accessor, with the plain `new(); add(x)...` loop that the
//! specification gives as its meaning.

use crate::exact::*;
use crate::pairs::{PObs, PairT};
use crate::report::*;
use crate::types::*;
use average::{Estimate, Kurtosis, Max, Mean, Min, Quantile, Skewness, Variance};
use serde_json::{json, Value};
use std::cell::RefCell;

#[derive(Clone, Debug)]
struct Step {
    kind: String,
    xs: Vec<i64>,
    /// the shape of the iterator the chunk arrives through (Ingest.tla)
    shape: Shape,
}

fn parse_steps(v: &Value) -> Vec<Step> {
    v.as_array()
        .unwrap()
        .iter()
        .map(|s| Step {
            kind: s[0].as_str().unwrap().to_string(),
            xs: s[1].as_array().unwrap().iter().map(|x| x.as_i64().unwrap()).collect(),
            shape: Shape::parse(s[2].as_str().unwrap()),
        })
        .collect()
}

thread_local! {
    /// the property the replay is deciding: C20 (bit-for-bit agreement of all ingestion paths), or
    /// C08 / C09 / C17, which judge the ingested estimator by their own, weaker predicate (an
    /// ingestion path that differs from the add loop in the last bit violates C20 but not them)
    static PROP: RefCell<String> = RefCell::new("C20".to_string());
}

fn prop() -> String {
    PROP.with(|p| p.borrow().clone())
}

fn viol(rep: &mut Report, ty: &str, e: &str, line: &Value, acc: &str, what: String) {
    let p = prop();
    rep.violation(json!({
        "property": p, "family": "ingest", "type": ty, "embedding": e,
        "history": line["steps"], "accessor": acc, "what": what,
        "signature": format!("{}|{}|{}", p, ty, acc),
    }));
}

/// C08 / C09 on an ingestion path: both the ingested estimator and the add loop must be within
/// the property's envelope of the exact statistic, so they may differ by at most twice that.  On
/// the well-conditioned E0 data (small integers, kappa < 10, n <= 6, weights in [0.17, 3]) every
/// envelope of the property is below 1e-12 relative to max(|statistic|, 1).
///
/// Under the offset embedding E3 (2^30 + v: kappa about 2e9, n <= 6) the envelopes are about 4e-5
/// relative for variances, covariances and pearson (C = 16..32) and about 6e-6 absolute for the means; a
/// formulation that is quadratic in kappa (power sums) is off by kappa^2 * 2^-53, i.e. by more than the
/// statistic itself.
fn cmp_obs_tol(a: &[(String, Option<u64>)], b: &[(String, Option<u64>)], offset: bool) -> Option<String> {
    if a.len() != b.len() {
        return Some("different accessor lists".into());
    }
    for (x, y) in a.iter().zip(b) {
        let ok = match (x.1, y.1) {
            (None, None) => true,
            (Some(p), Some(q)) => {
                let (p, q) = (f64::from_bits(p), f64::from_bits(q));
                let tol = if !offset {
                    1e-9 * p.abs().max(q.abs()).max(1.0)
                } else if x.0.contains("mean") && !x.0.contains("variance") && !x.0.contains("error") {
                    2e-5
                } else {
                    1e-4 * p.abs().max(q.abs()).max(1.0)
                };
                (p.is_nan() && q.is_nan()) || p == q || (p - q).abs() <= tol
            }
            _ => false,
        };
        if !ok {
            let f = |v: Option<u64>| v.map(|v| fmt_f(f64::from_bits(v))).unwrap_or("panic".into());
            return Some(format!("{}: {} (ingestion path) vs {} (add loop): further apart than twice the envelope", x.0, f(x.1), f(y.1)));
        }
    }
    None
}

/// C17 on an ingested pair estimator, from the data it was fed
fn c17_pair(acc: &str, obs: Option<f64>, data: &[(f64, f64)], weighted: bool) -> Option<String> {
    let n = data.len() as f64;
    if data.is_empty() {
        return None;
    }
    let sumw: f64 = data.iter().map(|p| p.1).sum();
    let range = |xs: Vec<f64>| -> (f64, f64, f64) {
        let lo = xs.iter().cloned().fold(f64::INFINITY, f64::min);
        let hi = xs.iter().cloned().fold(f64::NEG_INFINITY, f64::max);
        (lo, hi, 8.0 * n * U * lo.abs().max(hi.abs()))
    };
    let inside = |o: Option<f64>, r: (f64, f64, f64), what: &str| match o {
        Some(v) if v >= r.0 - r.2 && v <= r.1 + r.2 => None,
        v => Some(format!("{what} must lie in [{:e}, {:e}], observed {:?}", r.0, r.1, v)),
    };
    let nonneg = |o: Option<f64>| match o {
        Some(v) if v >= 0.0 => None,
        v => Some(format!("must be >= 0, observed {:?}", v)),
    };
    match acc {
        "population_variance" | "population_variance_x" | "population_variance_y" => nonneg(obs),
        "sample_variance" | "sample_variance_x" | "sample_variance_y" if data.len() >= 2 => nonneg(obs),
        "variance_of_weighted_mean" | "error" if data.len() >= 2 && sumw > 0.0 => nonneg(obs),
        "weighted_mean" if weighted && sumw > 0.0 => inside(obs, range(data.iter().filter(|p| p.1 > 0.0).map(|p| p.0).collect()), "the weighted mean"),
        "unweighted_mean" | "mean_x" => inside(obs, range(data.iter().map(|p| p.0).collect()), "the mean"),
        "mean_y" => inside(obs, range(data.iter().map(|p| p.1).collect()), "the mean"),
        "effective_len" if sumw > 0.0 => {
            let rel = n * (2.0f64).powi(-50);
            match obs {
                Some(o) if o >= 1.0 - rel && o <= n * (1.0 + rel) => None,
                o => Some(format!("effective_len must lie in [1, {}], observed {:?}", n, o)),
            }
        }
        _ => None,
    }
}

fn cmp_obs(a: &[(String, Option<u64>)], b: &[(String, Option<u64>)]) -> Option<String> {
    if a.len() != b.len() {
        return Some("different accessor lists".into());
    }
    for (x, y) in a.iter().zip(b) {
        if x != y {
            let f = |v: Option<u64>| v.map(|v| fmt_f(f64::from_bits(v))).unwrap_or("panic".into());
            return Some(format!("{}: {} (ingestion path) vs {} (add loop)", x.0, f(x.1), f(y.1)));
        }
    }
    None
}

/// collect / extend of any f64 consumer through an iterator of the given shape (Ingest.tla)
fn collect_shaped_f64<C>(xs: &[f64], by_ref: bool, shape: Shape) -> C
where
    C: std::iter::FromIterator<f64> + for<'a> std::iter::FromIterator<&'a f64>,
{
    let w = with_poison(xs);
    match (shape, by_ref) {
        (Shape::Exact, false) => xs.iter().copied().collect(),
        (Shape::Exact, true) => xs.iter().collect(),
        (Shape::Lazy, false) => xs.iter().copied().filter(|x| !x.is_nan() || x.is_nan()).collect(),
        (Shape::Lazy, true) => xs.iter().filter(|x| !x.is_nan() || x.is_nan()).collect(),
        (Shape::Resuming, false) => Resuming::new(&w, xs.len()).copied().collect(),
        (Shape::Resuming, true) => Resuming::new(&w, xs.len()).collect(),
    }
}

fn extend_shaped_f64<C>(c: &mut C, xs: &[f64], by_ref: bool, shape: Shape)
where
    C: Extend<f64> + for<'a> Extend<&'a f64>,
{
    let w = with_poison(xs);
    match (shape, by_ref) {
        (Shape::Exact, false) => c.extend(xs.iter().copied()),
        (Shape::Exact, true) => c.extend(xs.iter()),
        (Shape::Lazy, false) => c.extend(xs.iter().copied().filter(|x| !x.is_nan() || x.is_nan())),
        (Shape::Lazy, true) => c.extend(xs.iter().filter(|x| !x.is_nan() || x.is_nan())),
        (Shape::Resuming, false) => c.extend(Resuming::new(&w, xs.len()).copied()),
        (Shape::Resuming, true) => c.extend(Resuming::new(&w, xs.len())),
    }
}

// ------------------------------------------------------------------ single-value estimators
fn mom_bits<T: MomT>(t: &T) -> Vec<(String, Option<u64>)> {
    let mut v = Vec::new();
    t.observe(&mut v);
    v.into_iter().map(|(a, x)| (a.name(), x.map(bits))).collect()
}

fn run_mom<T: MomT>(steps: &[Step], line: &Value, e: &Embedding, rep: &mut Report) {
    rep.replays += 1;
    let f = |xs: &[i64]| -> Vec<f64> { xs.iter().map(|&v| e.x(v)).collect() };
    let mut obj: Option<T> = None;
    let mut reference = T::new();
    for s in steps {
        let xs = f(&s.xs);
        for &x in &xs {
            reference.add(x);
        }
        match s.kind.as_str() {
            "new" => obj = Some(T::new()),
            "default" => obj = Some(T::default_()),
            // the specification chooses the iterator's shape: one that knows its length, one that
            // does not, one that is not fused (a conforming consumer stops at the first None)
            "collect_val" => obj = Some(T::collect_shaped(&xs, false, s.shape)),
            "collect_ref" => obj = Some(T::collect_shaped(&xs, true, s.shape)),
            // iterators that know their length and iterators that do not (size_hint lower bound 0)
            "extend_val" => obj.as_mut().unwrap().extend_shaped(&xs, false, s.shape),
            "extend_ref" => obj.as_mut().unwrap().extend_shaped(&xs, true, s.shape),
            "add" => obj.as_mut().unwrap().add(xs[0]),
            k => panic!("step {k}"),
        }
    }
    let obj = match obj {
        Some(o) => o,
        None => return,
    };
    let a = mom_bits(&obj);
    let b = mom_bits(&reference);
    rep.evaluations += a.len() as u64;
    if let Some(d) = cmp_obs(&a, &b) {
        viol(rep, T::NAME, e.name, line, "ingestion", d);
    }
    // Estimate::estimate() is the headline statistic, bit for bit
    if let Headline::Is(h) = T::HEADLINE {
        let hv = a.iter().find(|x| x.0 == h.name()).map(|x| x.1);
        let ev = a.iter().find(|x| x.0 == "estimate").map(|x| x.1);
        rep.evaluations += 1;
        if hv != ev {
            viol(rep, T::NAME, e.name, line, "estimate", format!("estimate() differs from {}()", h.name()));
        }
    }
}

fn run_minmax(steps: &[Step], line: &Value, e: &Embedding, rep: &mut Report) {
    rep.replays += 1;
    let f = |xs: &[i64]| -> Vec<f64> { xs.iter().map(|&v| e.x(v)).collect() };
    let mut mn: Option<Min> = None;
    let mut mx: Option<Max> = None;
    let mut max_ok = true; // Max has no Extend impl in this tree: extend steps use the add loop
    let (mut rmn, mut rmx) = (Min::new(), Max::new());
    for s in steps {
        let xs = f(&s.xs);
        for &x in &xs {
            rmn.add(x);
            rmx.add(x);
        }
        match s.kind.as_str() {
            "new" => {
                mn = Some(Min::new());
                mx = Some(Max::new());
            }
            "default" => {
                mn = Some(Min::default());
                mx = Some(Max::default());
            }
            "collect_val" => {
                mn = Some(collect_shaped_f64(&xs, false, s.shape));
                mx = Some(collect_shaped_f64(&xs, false, s.shape));
            }
            "collect_ref" => {
                mn = Some(collect_shaped_f64(&xs, true, s.shape));
                mx = Some(collect_shaped_f64(&xs, true, s.shape));
            }
            "extend_val" => {
                extend_shaped_f64(mn.as_mut().unwrap(), &xs, false, s.shape);
                max_ok = false;
                for &x in &xs {
                    mx.as_mut().unwrap().add(x);
                }
            }
            "extend_ref" => {
                extend_shaped_f64(mn.as_mut().unwrap(), &xs, true, s.shape);
                max_ok = false;
                for &x in &xs {
                    mx.as_mut().unwrap().add(x);
                }
            }
            "add" => {
                mn.as_mut().unwrap().add(xs[0]);
                mx.as_mut().unwrap().add(xs[0]);
            }
            k => panic!("step {k}"),
        }
    }
    let _ = max_ok;
    if let (Some(mn), Some(mx)) = (mn, mx) {
        rep.evaluations += 4;
        if bits(mn.min()) != bits(rmn.min()) {
            viol(rep, "Min", e.name, line, "ingestion", format!("min() = {} vs {} from the add loop", fmt_f(mn.min()), fmt_f(rmn.min())));
        }
        if bits(mx.max()) != bits(rmx.max()) {
            viol(rep, "Max", e.name, line, "ingestion", format!("max() = {} vs {} from the add loop", fmt_f(mx.max()), fmt_f(rmx.max())));
        }
        if bits(mn.estimate()) != bits(mn.min()) {
            viol(rep, "Min", e.name, line, "estimate", "estimate() differs from min()".into());
        }
        if bits(mx.estimate()) != bits(mx.max()) {
            viol(rep, "Max", e.name, line, "estimate", "estimate() differs from max()".into());
        }
    }
}

// -------------------------------------------------------------------------- pair estimators
fn pair_bits<T: PairT>(t: &T) -> Vec<(String, Option<u64>)> {
    let mut v: Vec<PObs> = Vec::new();
    t.observe(&mut v);
    v.into_iter().map(|(a, x)| (a.to_string(), x.map(bits))).collect()
}

fn run_pair<T: PairT>(steps: &[Step], line: &Value, e: &Embedding, pattern: usize, rep: &mut Report) {
    rep.replays += 1;
    // second coordinate derived from position and value (weights >= 0, zero included); pattern 1
    // starts every history with two weightless observations (an estimator that is non-empty but
    // has no weight yet when the next piece arrives)
    let mut pos = 0usize;
    let mut f = |xs: &[i64]| -> Vec<(f64, f64)> {
        xs.iter()
            .map(|&v| {
                let w = if pattern == 2 {
                    0.7 // C16: a constant second coordinate with a full mantissa
                } else if pattern == 0 {
                    [1.0, 0.0, 0.17, 2.5, 0.27][(pos as i64 + v + 3).rem_euclid(5) as usize]
                } else if pos < 2 {
                    0.0
                } else {
                    [0.5, 0.0, 3.0][(pos as i64 + v + 3).rem_euclid(3) as usize]
                };
                pos += 1;
                (e.x(v), w)
            })
            .collect()
    };
    let mut obj: Option<T> = None;
    let mut reference = T::new();
    let mut all: Vec<(f64, f64)> = Vec::new();
    for s in steps {
        let xs = f(&s.xs);
        for &(a, b) in &xs {
            reference.add(a, b);
        }
        match s.kind.as_str() {
            "new" => obj = Some(T::new()),
            "default" => obj = Some(T::default_()),
            "collect_val" => obj = Some(T::collect_shaped(&xs, false, s.shape)),
            "collect_ref" => obj = Some(T::collect_shaped(&xs, true, s.shape)),
            "extend_val" => obj.as_mut().unwrap().extend_shaped(&xs, false, s.shape),
            "extend_ref" => obj.as_mut().unwrap().extend_shaped(&xs, true, s.shape),
            "add" => obj.as_mut().unwrap().add(xs[0].0, xs[0].1),
            k => panic!("step {k}"),
        }
        if matches!(s.kind.as_str(), "collect_val" | "collect_ref" | "new" | "default") {
            all.clear();
        }
        all.extend(&xs);
    }
    if let Some(obj) = obj {
        let a = pair_bits(&obj);
        let b = pair_bits(&reference);
        rep.evaluations += a.len() as u64;
        let label = format!("{}/w{}", e.name, pattern);
        match prop().as_str() {
            "C17" => {
                for (acc, v) in &a {
                    if let Some(w) = c17_pair(acc, v.map(f64::from_bits), &all, T::NAME != "Covariance") {
                        viol(rep, T::NAME, &label, line, acc, w);
                    }
                }
            }
            "C08" | "C09" => {
                if let Some(d) = cmp_obs_tol(&a, &b, e.name == "E3") {
                    viol(rep, T::NAME, &label, line, "ingestion", d);
                }
            }
            "C16" => {
                // constant streams only (the caller selects them): every statistic C16 fixes exactly
                // (means exactly x, variances / covariance exactly 0, sentinels) must be what the
                // add loop gives, bit for bit; weight sums are not C16's
                let fixed = |n: &str| !matches!(n, "sum_weights" | "sum_weights_sq" | "effective_len" | "w.is_empty");
                let fa: Vec<_> = a.iter().filter(|x| fixed(&x.0)).cloned().collect();
                let fb: Vec<_> = b.iter().filter(|x| fixed(&x.0)).cloned().collect();
                if let Some(d) = cmp_obs(&fa, &fb) {
                    viol(rep, T::NAME, &label, line, "ingestion of a constant stream", d);
                }
            }
            _ => {
                if let Some(d) = cmp_obs(&a, &b) {
                    viol(rep, T::NAME, &label, line, "ingestion", d);
                }
            }
        }
    }
}

// ----------------------------------------------------------------------------- concatenate!
thread_local! {
    static PROBE_LOG: RefCell<Vec<(u32, f64)>> = RefCell::new(Vec::new());
    static PROBE_IDS: RefCell<u32> = RefCell::new(0);
}

/// An "estimator" that records every add it receives (field id, value).
#[derive(Debug)]
pub struct Probe {
    pub id: u32,
    pub n: u64,
    pub h: f64,
}

impl Default for Probe {
    fn default() -> Probe {
        let id = PROBE_IDS.with(|c| {
            let mut c = c.borrow_mut();
            *c += 1;
            *c
        });
        Probe { id, n: 0, h: 0.0 }
    }
}

impl Probe {
    pub fn add(&mut self, x: f64) {
        self.n += 1;
        self.h = self.h * 31.0 + x; // order-sensitive
        PROBE_LOG.with(|l| l.borrow_mut().push((self.id, x)));
    }
    pub fn count(&self) -> f64 {
        self.n as f64
    }
    pub fn hash(&self) -> f64 {
        self.h
    }
    pub fn ident(&self) -> f64 {
        self.id as f64
    }
    pub fn ident_b(&self) -> f64 {
        self.id as f64
    }
    pub fn count_c(&self) -> f64 {
        self.n as f64
    }
}

/// The concatenate! structs live in their own module so that only `average`'s items (and not the
/// harness's traits, which also have an `add`) are in scope where the macro expands.
mod cc {
    use super::Probe;
    use average::{concatenate, Estimate, Kurtosis, Max, Mean, Min, Quantile, Skewness, Variance};
    concatenate!(pub MinMax2, [Min, min], [Max, max]);
    concatenate!(pub Stats3, [Variance, variance, mean, sample_variance, population_variance, error], [Kurtosis, kurt, kurtosis, skewness], [Max, max, max]);
    concatenate!(pub Est4, [Mean, mean], [Skewness, skewness], [Quantile, quantile], [Min, min]);
    concatenate!(pub Probes3, [Probe, a, count, hash, ident], [Probe, b2, ident_b], [Probe, c, count_c]);
    // short syntax naming statistics that are NOT the estimator's headline (estimate()) value
    concatenate!(pub Short3, [Variance, sample_variance], [Kurtosis, skewness], [Variance, error]);

    impl Probes3 {
        pub fn ids(&self) -> (u32, u32, u32) {
            (self.a.id, self.b2.id, self.c.id)
        }
        pub fn hashes(&self) -> (f64, f64, f64, u64, u64, u64) {
            (self.a.h, self.b2.h, self.c.h, self.a.n, self.b2.n, self.c.n)
        }
    }
}
use cc::{Est4, MinMax2, Probes3, Short3, Stats3};

fn run_concat(steps: &[Step], line: &Value, e: &Embedding, rep: &mut Report) {
    // concatenate! structs implement new, default, FromIterator (value and reference) and add
    if steps.iter().any(|s| s.kind.starts_with("extend")) {
        rep.bump("concatenate_skipped_extend", 1);
        return;
    }
    rep.replays += 1;
    let f = |xs: &[i64]| -> Vec<f64> { xs.iter().map(|&v| e.x(v)).collect() };
    let mut all: Vec<f64> = Vec::new();
    let mut a: Option<MinMax2> = None;
    let mut b: Option<Stats3> = None;
    let mut c: Option<Est4> = None;
    let mut d: Option<Short3> = None;
    let mut p: Option<Probes3> = None;
    PROBE_LOG.with(|l| l.borrow_mut().clear());
    for s in steps {
        let xs = f(&s.xs);
        all.extend(&xs);
        match s.kind.as_str() {
            "new" => {
                a = Some(MinMax2::new());
                b = Some(Stats3::new());
                c = Some(Est4::new());
                d = Some(Short3::new());
                p = Some(Probes3::new());
            }
            "default" => {
                a = Some(MinMax2::default());
                b = Some(Stats3::default());
                c = Some(Est4::default());
                d = Some(Short3::default());
                p = Some(Probes3::default());
            }
            "collect_val" | "collect_ref" => {
                let r = s.kind == "collect_ref";
                a = Some(collect_shaped_f64(&xs, r, s.shape));
                b = Some(collect_shaped_f64(&xs, r, s.shape));
                c = Some(collect_shaped_f64(&xs, r, s.shape));
                d = Some(collect_shaped_f64(&xs, r, s.shape));
                p = Some(collect_shaped_f64(&xs, r, s.shape));
            }
            "add" => {
                a.as_mut().unwrap().add(xs[0]);
                b.as_mut().unwrap().add(xs[0]);
                c.as_mut().unwrap().add(xs[0]);
                d.as_mut().unwrap().add(xs[0]);
                p.as_mut().unwrap().add(xs[0]);
            }
            k => panic!("step {k}"),
        }
    }
    let (a, b, c, d, p) = match (a, b, c, d, p) {
        (Some(a), Some(b), Some(c), Some(d), Some(p)) => (a, b, c, d, p),
        _ => return,
    };
    // the underlying estimators fed the same sequence alone
    let mut mn = Min::new();
    let mut mx = Max::new();
    let mut var = Variance::new();
    let mut ku = Kurtosis::new();
    let mut me = Mean::new();
    let mut sk = Skewness::new();
    let mut qu = Quantile::default();
    for &x in &all {
        Estimate::add(&mut mn, x);
        Estimate::add(&mut mx, x);
        Estimate::add(&mut var, x);
        Estimate::add(&mut ku, x);
        Estimate::add(&mut me, x);
        Estimate::add(&mut sk, x);
        Estimate::add(&mut qu, x);
    }
    let pairs: Vec<(&str, &str, f64, f64)> = vec![
        ("MinMax2", "min", a.min(), mn.min()),
        ("MinMax2", "max", a.max(), mx.max()),
        ("Stats3", "mean", b.mean(), var.mean()),
        ("Stats3", "sample_variance", b.sample_variance(), var.sample_variance()),
        ("Stats3", "population_variance", b.population_variance(), var.population_variance()),
        ("Stats3", "error", b.error(), var.error()),
        ("Stats3", "kurtosis", b.kurtosis(), ku.kurtosis()),
        ("Stats3", "skewness", b.skewness(), ku.skewness()),
        ("Stats3", "max", b.max(), mx.max()),
        ("Est4", "mean", c.mean(), me.mean()),
        ("Est4", "skewness", c.skewness(), sk.skewness()),
        ("Est4", "quantile", c.quantile(), qu.quantile()),
        ("Est4", "min", c.min(), mn.min()),
        ("Short3", "sample_variance", d.sample_variance(), var.sample_variance()),
        ("Short3", "skewness", d.skewness(), ku.skewness()),
        ("Short3", "error", d.error(), var.error()),
    ];
    for (ty, acc, got, want) in pairs {
        rep.evaluations += 1;
        if bits(got) != bits(want) {
            viol(rep, ty, e.name, line, acc, format!("concatenate! struct reports {acc}() = {} but the estimator fed alone reports {}", fmt_f(got), fmt_f(want)));
        }
    }
    // Probe: every field received every element exactly once, in order, fields in declaration order
    let (ia, ib, ic) = p.ids();
    let log: Vec<(u32, f64)> = PROBE_LOG.with(|l| l.borrow().clone());
    let mut expect: Vec<(u32, f64)> = Vec::new();
    for &x in &all {
        expect.push((ia, x));
        expect.push((ib, x));
        expect.push((ic, x));
    }
    let mine: Vec<(u32, f64)> = log.into_iter().filter(|(i, _)| *i == ia || *i == ib || *i == ic).collect();
    rep.evaluations += 2;
    let same = mine.len() == expect.len() && mine.iter().zip(&expect).all(|(x, y)| x.0 == y.0 && x.1.to_bits() == y.1.to_bits());
    if !same {
        viol(rep, "Probes3", e.name, line, "forwarding", format!("fields received {:?} but every field must receive every element once, in order: {:?}", mine, expect));
    }
    let (h1, h2, h3, n1, n2, n3) = p.hashes();
    if p.count() != all.len() as f64 || n1 != n2 || n2 != n3 || h1 != h2 || h2 != h3 || p.hash().to_bits() != h1.to_bits() || p.ident() != ia as f64 || p.ident_b() != ib as f64 || p.count_c() != n3 as f64 {
        viol(rep, "Probes3", e.name, line, "accessors", "forwarded accessors disagree with the fields".into());
    }
}

pub fn process_line(v: &Value, want_prop: &str, rep: &mut Report) {
    PROP.with(|p| *p.borrow_mut() = want_prop.to_string());
    let steps = parse_steps(&v["steps"]);
    let hs = hash_str(&v["steps"].to_string());
    rep.behaviours += 1;
    let kept_before = rep.violations.len();
    if !rep.distinct.insert(hs) {
        return;
    }
    if steps.len() >= 2 && v["data"].as_array().unwrap().len() >= 2 {
        rep.nontrivial.insert(hs);
    }
    if rep.nontrivial.contains(&hs) {
        rep.sample(json!({"steps": v["steps"], "meaning_add_loop": v["data"]}));
    }
    // C16: only constant streams (every observation the same value) are its business here
    if want_prop == "C16" {
        let d = v["data"].as_array().unwrap();
        if d.is_empty() || d.iter().any(|x| x != &d[0]) {
            return;
        }
    }
    // C08 / C09 / C17 judge by their own predicates: C17 on the well-conditioned embedding only, C08 / C09 also
    // under a common offset of 2^30 (conditioning 2e9)
    let embs: &[&str] = if want_prop == "C20" { &["E0", "E5", "E1"] } else if want_prop == "C16" { &["E0", "E10"] } else if want_prop == "C08" || want_prop == "C09" { &["E0", "E3"] } else { &["E0"] };
    for e in embeddings(embs) {
        let r = std::panic::catch_unwind(std::panic::AssertUnwindSafe(|| {
            let rep = &mut *rep;
            if want_prop == "C14" {
                // the extreme of everything seen, whatever the ingestion path (long chunks: direct_ingestlong)
                run_minmax(&steps, v, &e, rep);
                return;
            }
            if want_prop == "C20" || want_prop == "C16" {
                run_mom::<average::Mean>(&steps, v, &e, rep);
                run_mom::<average::Variance>(&steps, v, &e, rep);
                run_mom::<average::Skewness>(&steps, v, &e, rep);
                run_mom::<average::Kurtosis>(&steps, v, &e, rep);
                run_mom::<average::Moments4>(&steps, v, &e, rep);
                run_mom::<m5::M5>(&steps, v, &e, rep);
                run_mom::<m10::M10>(&steps, v, &e, rep);
                if want_prop == "C20" {
                    run_minmax(&steps, v, &e, rep);
                    run_concat(&steps, v, &e, rep);
                }
            }
            let patterns: &[usize] = if want_prop == "C16" { &[0, 2] } else { &[0, 1] };
            for &pattern in patterns {
                if want_prop != "C09" {
                    run_pair::<average::WeightedMean>(&steps, v, &e, pattern, rep);
                    run_pair::<average::WeightedMeanWithError>(&steps, v, &e, pattern, rep);
                }
                if want_prop != "C08" {
                    run_pair::<average::Covariance>(&steps, v, &e, pattern, rep);
                }
            }
        }));
        if r.is_err() {
            viol(rep, "ingest", e.name, v, "panic", "the code under test panicked on an ingestion path".into());
        }
    }
    for x in rep.violations.iter_mut().skip(kept_before) {
        x["line"] = v.clone();
    }
}


/// Behaviours of Ingest.tla with chunks far beyond the TLC generator's bound (MaxChunk = 2): one or
/// two collect / extend steps over 9 ... 200 observations in increasing, decreasing and random order,
/// by value and by reference, through the three iterator shapes, then an add.  Blocked or unrolled
/// collect / extend loops (8 lanes, blocks of 64, four at a time) have their edge cases only there.
/// Every line goes through the same replay as the generated ones (`process_line`).
pub fn direct_ingestlong(prop: &str, seed: u64, rep: &mut Report) {
    use rand::{Rng, SeedableRng};
    let mut rng = rand_xoshiro::Xoshiro256PlusPlus::seed_from_u64(seed ^ 0x696e67);
    let shapes = ["exact", "lazy", "resuming"];
    for &n in &[5usize, 8, 9, 10, 17, 18, 27, 63, 64, 65, 66, 128, 130, 200] {
        for order in 0..3 {
            let xs: Vec<i64> = match order {
                0 => (0..n as i64).collect(),
                1 => (0..n as i64).map(|i| n as i64 - i).collect(),
                _ => (0..n).map(|_| rng.random_range(-400..400)).collect(),
            };
            for (si, sh) in shapes.iter().enumerate() {
                for by_ref in [false, true] {
                    let c = if by_ref { "collect_ref" } else { "collect_val" };
                    let x = if by_ref { "extend_ref" } else { "extend_val" };
                    let k = n / 3;
                    let d3: Vec<i64> = [&xs[..], &[7][..]].concat();
                    let d4: Vec<i64> = [&[-2][..], &xs[..]].concat();
                    let lines = [
                        json!({"steps": [[c, xs, sh]], "data": xs}),
                        json!({"steps": [["new", [], "exact"], [x, xs, sh]], "data": xs}),
                        json!({"steps": [[c, &xs[..k], shapes[(si + 1) % 3]], [x, &xs[k..], sh], ["add", [7], "exact"]], "data": d3}),
                        json!({"steps": [["default", [], "exact"], ["add", [-2], "exact"], [x, &xs[..k], sh], [x, &xs[k..], shapes[(si + 2) % 3]]], "data": d4}),
                    ];
                    for l in &lines {
                        process_line(l, prop, rep);
                    }
                }
            }
        }
    }
}
