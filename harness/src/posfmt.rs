//! A minimal lossless *positional* serde format (in the style of bincode / postcard): a struct is
//! the bare sequence of its fields in the order `Serialize` emits them, handed back to
//! `Deserialize` through `visit_seq`; integers and floats are 8 little-endian bytes; sequences
//! and strings are length-prefixed.  C18 quantifies over "a lossless format": JSON matches fields
//! by name, this one by position, so the two together exercise both ways a `Deserialize` impl can
//! be driven.  Not self-describing: `deserialize_any` is an error.

use serde::de::{self, DeserializeOwned, DeserializeSeed, SeqAccess, Visitor};
use serde::ser::{self, Serialize};
use std::fmt;

#[derive(Debug)]
pub struct PosError(pub String);

impl fmt::Display for PosError {
    fn fmt(&self, f: &mut fmt::Formatter<'_>) -> fmt::Result {
        f.write_str(&self.0)
    }
}
impl std::error::Error for PosError {}
impl ser::Error for PosError {
    fn custom<T: fmt::Display>(m: T) -> Self {
        PosError(m.to_string())
    }
}
impl de::Error for PosError {
    fn custom<T: fmt::Display>(m: T) -> Self {
        PosError(m.to_string())
    }
}

pub fn to_bytes<T: Serialize>(v: &T) -> Result<Vec<u8>, PosError> {
    let mut w = Writer { out: Vec::new() };
    v.serialize(&mut w)?;
    Ok(w.out)
}

pub fn from_bytes<T: DeserializeOwned>(b: &[u8]) -> Result<T, PosError> {
    let mut r = Reader { inp: b, pos: 0 };
    let v = T::deserialize(&mut r)?;
    if r.pos != b.len() {
        return Err(PosError(format!("{} trailing bytes", b.len() - r.pos)));
    }
    Ok(v)
}

// ------------------------------------------------------------------------------------- writing
pub struct Writer {
    out: Vec<u8>,
}

impl Writer {
    fn u64(&mut self, v: u64) {
        self.out.extend_from_slice(&v.to_le_bytes());
    }
}

impl<'a> ser::Serializer for &'a mut Writer {
    type Ok = ();
    type Error = PosError;
    type SerializeSeq = Self;
    type SerializeTuple = Self;
    type SerializeTupleStruct = Self;
    type SerializeTupleVariant = Self;
    type SerializeMap = Self;
    type SerializeStruct = Self;
    type SerializeStructVariant = Self;

    fn serialize_bool(self, v: bool) -> Result<(), PosError> {
        self.out.push(v as u8);
        Ok(())
    }
    fn serialize_i8(self, v: i8) -> Result<(), PosError> {
        self.serialize_i64(v as i64)
    }
    fn serialize_i16(self, v: i16) -> Result<(), PosError> {
        self.serialize_i64(v as i64)
    }
    fn serialize_i32(self, v: i32) -> Result<(), PosError> {
        self.serialize_i64(v as i64)
    }
    fn serialize_i64(self, v: i64) -> Result<(), PosError> {
        self.out.extend_from_slice(&v.to_le_bytes());
        Ok(())
    }
    fn serialize_u8(self, v: u8) -> Result<(), PosError> {
        self.serialize_u64(v as u64)
    }
    fn serialize_u16(self, v: u16) -> Result<(), PosError> {
        self.serialize_u64(v as u64)
    }
    fn serialize_u32(self, v: u32) -> Result<(), PosError> {
        self.serialize_u64(v as u64)
    }
    fn serialize_u64(self, v: u64) -> Result<(), PosError> {
        self.u64(v);
        Ok(())
    }
    fn serialize_f32(self, v: f32) -> Result<(), PosError> {
        self.out.extend_from_slice(&v.to_bits().to_le_bytes());
        Ok(())
    }
    fn serialize_f64(self, v: f64) -> Result<(), PosError> {
        self.u64(v.to_bits());
        Ok(())
    }
    fn serialize_char(self, v: char) -> Result<(), PosError> {
        self.serialize_u64(v as u64)
    }
    fn serialize_str(self, v: &str) -> Result<(), PosError> {
        self.serialize_bytes(v.as_bytes())
    }
    fn serialize_bytes(self, v: &[u8]) -> Result<(), PosError> {
        self.u64(v.len() as u64);
        self.out.extend_from_slice(v);
        Ok(())
    }
    fn serialize_none(self) -> Result<(), PosError> {
        self.out.push(0);
        Ok(())
    }
    fn serialize_some<T: ?Sized + Serialize>(self, v: &T) -> Result<(), PosError> {
        self.out.push(1);
        v.serialize(self)
    }
    fn serialize_unit(self) -> Result<(), PosError> {
        Ok(())
    }
    fn serialize_unit_struct(self, _: &'static str) -> Result<(), PosError> {
        Ok(())
    }
    fn serialize_unit_variant(self, _: &'static str, i: u32, _: &'static str) -> Result<(), PosError> {
        self.serialize_u64(i as u64)
    }
    fn serialize_newtype_struct<T: ?Sized + Serialize>(self, _: &'static str, v: &T) -> Result<(), PosError> {
        v.serialize(self)
    }
    fn serialize_newtype_variant<T: ?Sized + Serialize>(self, _: &'static str, i: u32, _: &'static str, v: &T) -> Result<(), PosError> {
        self.u64(i as u64);
        v.serialize(self)
    }
    fn serialize_seq(self, len: Option<usize>) -> Result<Self, PosError> {
        let n = len.ok_or_else(|| PosError("sequence of unknown length".into()))?;
        self.u64(n as u64);
        Ok(self)
    }
    fn serialize_tuple(self, _: usize) -> Result<Self, PosError> {
        Ok(self)
    }
    fn serialize_tuple_struct(self, _: &'static str, _: usize) -> Result<Self, PosError> {
        Ok(self)
    }
    fn serialize_tuple_variant(self, _: &'static str, i: u32, _: &'static str, _: usize) -> Result<Self, PosError> {
        self.u64(i as u64);
        Ok(self)
    }
    fn serialize_map(self, len: Option<usize>) -> Result<Self, PosError> {
        let n = len.ok_or_else(|| PosError("map of unknown length".into()))?;
        self.u64(n as u64);
        Ok(self)
    }
    fn serialize_struct(self, _: &'static str, _: usize) -> Result<Self, PosError> {
        Ok(self)
    }
    fn serialize_struct_variant(self, _: &'static str, i: u32, _: &'static str, _: usize) -> Result<Self, PosError> {
        self.u64(i as u64);
        Ok(self)
    }
    fn is_human_readable(&self) -> bool {
        false
    }
}

/// serialise and deserialise; Err: the format could not carry the type (not decided, not a violation)
pub fn roundtrip<T: Serialize + DeserializeOwned>(v: &T) -> Result<T, String> {
    let b = to_bytes(v).map_err(|e| e.0)?;
    from_bytes(&b).map_err(|e| e.0)
}

macro_rules! compound {
    ($tr:path, $f:ident) => {
        impl<'a> $tr for &'a mut Writer {
            type Ok = ();
            type Error = PosError;
            fn $f<T: ?Sized + Serialize>(&mut self, v: &T) -> Result<(), PosError> {
                v.serialize(&mut **self)
            }
            fn end(self) -> Result<(), PosError> {
                Ok(())
            }
        }
    };
}
compound!(ser::SerializeSeq, serialize_element);
compound!(ser::SerializeTuple, serialize_element);
compound!(ser::SerializeTupleStruct, serialize_field);
compound!(ser::SerializeTupleVariant, serialize_field);

impl<'a> ser::SerializeMap for &'a mut Writer {
    type Ok = ();
    type Error = PosError;
    fn serialize_key<T: ?Sized + Serialize>(&mut self, k: &T) -> Result<(), PosError> {
        k.serialize(&mut **self)
    }
    fn serialize_value<T: ?Sized + Serialize>(&mut self, v: &T) -> Result<(), PosError> {
        v.serialize(&mut **self)
    }
    fn end(self) -> Result<(), PosError> {
        Ok(())
    }
}
impl<'a> ser::SerializeStruct for &'a mut Writer {
    type Ok = ();
    type Error = PosError;
    fn serialize_field<T: ?Sized + Serialize>(&mut self, _: &'static str, v: &T) -> Result<(), PosError> {
        v.serialize(&mut **self)
    }
    fn end(self) -> Result<(), PosError> {
        Ok(())
    }
}
impl<'a> ser::SerializeStructVariant for &'a mut Writer {
    type Ok = ();
    type Error = PosError;
    fn serialize_field<T: ?Sized + Serialize>(&mut self, _: &'static str, v: &T) -> Result<(), PosError> {
        v.serialize(&mut **self)
    }
    fn end(self) -> Result<(), PosError> {
        Ok(())
    }
}

// ------------------------------------------------------------------------------------- reading
pub struct Reader<'de> {
    inp: &'de [u8],
    pos: usize,
}

impl<'de> Reader<'de> {
    fn take(&mut self, n: usize) -> Result<&'de [u8], PosError> {
        if self.pos + n > self.inp.len() {
            return Err(PosError("unexpected end of input".into()));
        }
        let s = &self.inp[self.pos..self.pos + n];
        self.pos += n;
        Ok(s)
    }
    fn u64(&mut self) -> Result<u64, PosError> {
        let b = self.take(8)?;
        Ok(u64::from_le_bytes([b[0], b[1], b[2], b[3], b[4], b[5], b[6], b[7]]))
    }
}

struct Counted<'a, 'de> {
    r: &'a mut Reader<'de>,
    left: usize,
}

impl<'a, 'de> SeqAccess<'de> for Counted<'a, 'de> {
    type Error = PosError;
    fn next_element_seed<T: DeserializeSeed<'de>>(&mut self, seed: T) -> Result<Option<T::Value>, PosError> {
        if self.left == 0 {
            return Ok(None);
        }
        self.left -= 1;
        seed.deserialize(&mut *self.r).map(Some)
    }
    fn size_hint(&self) -> Option<usize> {
        Some(self.left)
    }
}

impl<'a, 'de> de::MapAccess<'de> for Counted<'a, 'de> {
    type Error = PosError;
    fn next_key_seed<K: DeserializeSeed<'de>>(&mut self, seed: K) -> Result<Option<K::Value>, PosError> {
        if self.left == 0 {
            return Ok(None);
        }
        self.left -= 1;
        seed.deserialize(&mut *self.r).map(Some)
    }
    fn next_value_seed<V: DeserializeSeed<'de>>(&mut self, seed: V) -> Result<V::Value, PosError> {
        seed.deserialize(&mut *self.r)
    }
}

impl<'a, 'de> de::Deserializer<'de> for &'a mut Reader<'de> {
    type Error = PosError;

    fn deserialize_any<V: Visitor<'de>>(self, _: V) -> Result<V::Value, PosError> {
        Err(PosError("the positional format is not self-describing".into()))
    }
    fn deserialize_bool<V: Visitor<'de>>(self, v: V) -> Result<V::Value, PosError> {
        let b = self.take(1)?[0];
        v.visit_bool(b != 0)
    }
    fn deserialize_i8<V: Visitor<'de>>(self, v: V) -> Result<V::Value, PosError> {
        self.deserialize_i64(v)
    }
    fn deserialize_i16<V: Visitor<'de>>(self, v: V) -> Result<V::Value, PosError> {
        self.deserialize_i64(v)
    }
    fn deserialize_i32<V: Visitor<'de>>(self, v: V) -> Result<V::Value, PosError> {
        self.deserialize_i64(v)
    }
    fn deserialize_i64<V: Visitor<'de>>(self, v: V) -> Result<V::Value, PosError> {
        let x = self.u64()? as i64;
        v.visit_i64(x)
    }
    fn deserialize_u8<V: Visitor<'de>>(self, v: V) -> Result<V::Value, PosError> {
        self.deserialize_u64(v)
    }
    fn deserialize_u16<V: Visitor<'de>>(self, v: V) -> Result<V::Value, PosError> {
        self.deserialize_u64(v)
    }
    fn deserialize_u32<V: Visitor<'de>>(self, v: V) -> Result<V::Value, PosError> {
        self.deserialize_u64(v)
    }
    fn deserialize_u64<V: Visitor<'de>>(self, v: V) -> Result<V::Value, PosError> {
        let x = self.u64()?;
        v.visit_u64(x)
    }
    fn deserialize_f32<V: Visitor<'de>>(self, v: V) -> Result<V::Value, PosError> {
        let b = self.take(4)?;
        v.visit_f32(f32::from_bits(u32::from_le_bytes([b[0], b[1], b[2], b[3]])))
    }
    fn deserialize_f64<V: Visitor<'de>>(self, v: V) -> Result<V::Value, PosError> {
        let x = self.u64()?;
        v.visit_f64(f64::from_bits(x))
    }
    fn deserialize_char<V: Visitor<'de>>(self, v: V) -> Result<V::Value, PosError> {
        let x = self.u64()? as u32;
        v.visit_char(char::from_u32(x).ok_or_else(|| PosError("bad char".into()))?)
    }
    fn deserialize_str<V: Visitor<'de>>(self, v: V) -> Result<V::Value, PosError> {
        let n = self.u64()? as usize;
        let b = self.take(n)?;
        v.visit_borrowed_str(std::str::from_utf8(b).map_err(|e| PosError(e.to_string()))?)
    }
    fn deserialize_string<V: Visitor<'de>>(self, v: V) -> Result<V::Value, PosError> {
        self.deserialize_str(v)
    }
    fn deserialize_bytes<V: Visitor<'de>>(self, v: V) -> Result<V::Value, PosError> {
        let n = self.u64()? as usize;
        let b = self.take(n)?;
        v.visit_borrowed_bytes(b)
    }
    fn deserialize_byte_buf<V: Visitor<'de>>(self, v: V) -> Result<V::Value, PosError> {
        self.deserialize_bytes(v)
    }
    fn deserialize_option<V: Visitor<'de>>(self, v: V) -> Result<V::Value, PosError> {
        match self.take(1)?[0] {
            0 => v.visit_none(),
            _ => v.visit_some(self),
        }
    }
    fn deserialize_unit<V: Visitor<'de>>(self, v: V) -> Result<V::Value, PosError> {
        v.visit_unit()
    }
    fn deserialize_unit_struct<V: Visitor<'de>>(self, _: &'static str, v: V) -> Result<V::Value, PosError> {
        v.visit_unit()
    }
    fn deserialize_newtype_struct<V: Visitor<'de>>(self, _: &'static str, v: V) -> Result<V::Value, PosError> {
        v.visit_newtype_struct(self)
    }
    fn deserialize_seq<V: Visitor<'de>>(self, v: V) -> Result<V::Value, PosError> {
        let n = self.u64()? as usize;
        v.visit_seq(Counted { r: self, left: n })
    }
    fn deserialize_tuple<V: Visitor<'de>>(self, len: usize, v: V) -> Result<V::Value, PosError> {
        v.visit_seq(Counted { r: self, left: len })
    }
    fn deserialize_tuple_struct<V: Visitor<'de>>(self, _: &'static str, len: usize, v: V) -> Result<V::Value, PosError> {
        v.visit_seq(Counted { r: self, left: len })
    }
    fn deserialize_map<V: Visitor<'de>>(self, v: V) -> Result<V::Value, PosError> {
        let n = self.u64()? as usize;
        v.visit_map(Counted { r: self, left: n })
    }
    fn deserialize_struct<V: Visitor<'de>>(self, _: &'static str, fields: &'static [&'static str], v: V) -> Result<V::Value, PosError> {
        v.visit_seq(Counted { r: self, left: fields.len() })
    }
    fn deserialize_enum<V: Visitor<'de>>(self, _: &'static str, _: &'static [&'static str], _: V) -> Result<V::Value, PosError> {
        Err(PosError("enums are not needed by any estimator".into()))
    }
    fn deserialize_identifier<V: Visitor<'de>>(self, _: V) -> Result<V::Value, PosError> {
        Err(PosError("the positional format has no field identifiers".into()))
    }
    fn deserialize_ignored_any<V: Visitor<'de>>(self, _: V) -> Result<V::Value, PosError> {
        Err(PosError("the positional format cannot skip a value".into()))
    }
    fn is_human_readable(&self) -> bool {
        false
    }
}
