//! Accumulated result of one harness job, merged across worker threads and printed as JSON.

use serde_json::{json, Value};
use std::collections::{BTreeMap, HashSet};

#[derive(Default, Clone)]
pub struct Report {
    /// behaviours (emitted specification states / traces) processed
    pub behaviours: u64,
    /// replays executed: behaviours x types x embeddings
    pub replays: u64,
    /// individual comparisons of an observation of the real code with the specification
    pub evaluations: u64,
    /// hashes of distinct non-trivial behaviours
    pub nontrivial: HashSet<u64>,
    /// hashes of all distinct behaviours
    pub distinct: HashSet<u64>,
    /// exact agreement checks between the specification's rationals and the harness's own
    /// i128 evaluation of the definitional statistic
    pub crosschecks: u64,
    pub counters: BTreeMap<String, u64>,
    pub violation_count: u64,
    pub violations: Vec<Value>,
    pub samples: Vec<Value>,
    /// problems with the tooling itself (spec/harness disagreement about ghost data, ...)
    pub tool_errors: Vec<String>,
}

pub const MAX_VIOLATIONS_KEPT: usize = 40;

impl Report {
    pub fn bump(&mut self, k: &str, by: u64) {
        *self.counters.entry(k.to_string()).or_insert(0) += by;
    }
    pub fn violation(&mut self, v: Value) {
        self.violation_count += 1;
        // keep the first few of each signature so that distinct failures are all visible
        let sig = v.get("signature").cloned();
        let same = self.violations.iter().filter(|x| x.get("signature").cloned() == sig).count();
        if same < 3 && self.violations.len() < MAX_VIOLATIONS_KEPT {
            self.violations.push(v);
        } else {
            let key = format!("violations_not_kept");
            self.bump(&key, 1);
        }
    }
    pub fn sample(&mut self, v: Value) {
        if self.samples.len() < 4 {
            self.samples.push(v);
        }
    }
    pub fn merge(mut self, o: Report) -> Report {
        self.behaviours += o.behaviours;
        self.replays += o.replays;
        self.evaluations += o.evaluations;
        self.nontrivial.extend(o.nontrivial);
        self.distinct.extend(o.distinct);
        self.crosschecks += o.crosschecks;
        for (k, v) in o.counters {
            *self.counters.entry(k).or_insert(0) += v;
        }
        self.violation_count += o.violation_count;
        for v in o.violations {
            let sig = v.get("signature").cloned();
            let same = self.violations.iter().filter(|x| x.get("signature").cloned() == sig).count();
            if same < 3 && self.violations.len() < MAX_VIOLATIONS_KEPT {
                self.violations.push(v);
            }
        }
        for s in o.samples {
            if self.samples.len() < 4 {
                self.samples.push(s);
            }
        }
        self.tool_errors.extend(o.tool_errors);
        self.tool_errors.truncate(20);
        self
    }
    pub fn to_json(&self) -> Value {
        json!({
            "behaviours": self.behaviours,
            "replays": self.replays,
            "evaluations": self.evaluations,
            "distinct": self.distinct.len(),
            "distinct_nontrivial": self.nontrivial.len(),
            "oracle_crosschecks": self.crosschecks,
            "counters": self.counters,
            "violation_count": self.violation_count,
            "violations": self.violations,
            "samples": self.samples,
            "tool_errors": self.tool_errors,
        })
    }
}

pub fn hash_str(s: &str) -> u64 {
    // FNV-1a
    let mut h: u64 = 0xcbf29ce484222325;
    for b in s.as_bytes() {
        h ^= *b as u64;
        h = h.wrapping_mul(0x100000001b3);
    }
    h
}

pub fn bits(x: f64) -> u64 {
    if x.is_nan() {
        0x7ff8_0000_0000_0000
    } else {
        x.to_bits()
    }
}

pub fn fmt_f(x: f64) -> String {
    format!("{:e} (0x{:016x})", x, x.to_bits())
}
