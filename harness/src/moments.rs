//! Spec -> implementation replay for the moment family (Mean, Variance, Skewness, Kurtosis,
//! define_moments! types).
//!
//! Input: one JSON object per reachable state of Gen_Moments: the history `h` of API calls and,
//! per slot, the ghost data and the specification's exact accessor values.  For every concrete
//! type and every admissible embedding the history is executed on real objects and every public
//! accessor is compared with the specification.

use crate::exact::*;
use crate::report::*;
use crate::types::*;
use serde_json::{json, Value};

#[derive(Clone, Debug)]
pub enum Op {
    Add(usize, i64),
    Merge(usize, usize),
    Clone(usize, usize),
    Fresh(usize),
    Ckpt(usize),
}

pub fn parse_ops(h: &Value) -> Vec<Op> {
    h.as_array()
        .unwrap()
        .iter()
        .map(|e| {
            let a = e.as_array().unwrap();
            let i = |k: usize| a[k].as_i64().unwrap();
            match a[0].as_str().unwrap() {
                "add" => Op::Add(i(1) as usize - 1, i(2)),
                "merge" => Op::Merge(i(1) as usize - 1, i(2) as usize - 1),
                "clone" => Op::Clone(i(1) as usize - 1, i(2) as usize - 1),
                "fresh" => Op::Fresh(i(1) as usize - 1),
                "ckpt" => Op::Ckpt(i(1) as usize - 1),
                o => panic!("unknown op {o}"),
            }
        })
        .collect()
}

/// The specification's exported values for one slot.
pub struct SlotSpec {
    pub n: u64,
    pub data: Vec<i64>,
    pub mean: SpecVal,
    pub pvar: SpecVal,
    pub svar: SpecVal,
    pub vom: SpecVal,
    pub err: SpecVal,
    pub skew: SpecVal,
    pub kurt: SpecVal,
    pub cm: Vec<SpecVal>,
    pub sm: Vec<SpecVal>,
    pub ssk: SpecVal,
    pub sku: SpecVal,
}

impl SlotSpec {
    pub fn parse(v: &Value) -> SlotSpec {
        let g = |k: &str| SpecVal::parse(&v[k]);
        let arr = |k: &str| v[k].as_array().unwrap().iter().map(SpecVal::parse).collect::<Vec<_>>();
        SlotSpec {
            n: v["n"].as_u64().unwrap(),
            data: v["data"].as_array().unwrap().iter().map(|x| x.as_i64().unwrap()).collect(),
            mean: g("mean"),
            pvar: g("pvar"),
            svar: g("svar"),
            vom: g("vom"),
            err: g("err"),
            skew: g("skew"),
            kurt: g("kurt"),
            cm: arr("cm"),
            sm: arr("sm"),
            ssk: g("ssk"),
            sku: g("sku"),
        }
    }
    /// The same record filled in by the harness's own exact evaluation of the definitions
    /// (i128 rationals) -- used where TLC's 32-bit integers cannot hold the values (long streams).
    /// The two are cross-checked on every behaviour where both exist.
    pub fn from_data(data: Vec<i64>, p: usize) -> SlotSpec {
        let n = data.len() as u64;
        let bag = Bag(&data);
        let nan = SpecVal::NaN;
        let zero = SpecVal::R(Rat::int(0));
        if n == 0 {
            let mut cm = vec![SpecVal::R(Rat::int(1)), zero];
            let mut sm = vec![zero, zero, SpecVal::R(Rat::int(1))];
            for _ in 2..=p {
                cm.push(nan);
            }
            for _ in 3..=p {
                sm.push(nan);
            }
            return SlotSpec { n, data, mean: nan, pvar: nan, svar: nan, vom: nan, err: nan, skew: nan, kurt: nan, cm, sm, ssk: nan, sku: nan };
        }
        if n > 64 {
            return SlotSpec::from_data_f64(data, p);
        }
        let ni = n as i128;
        let m2 = bag.central_moment(2);
        let root = |sign: i32, r: Rat| if sign == 0 || r.is_zero() { SpecVal::R(Rat::int(0)) } else { SpecVal::Root(sign, r) };
        let svar = if n < 2 { nan } else { SpecVal::R(m2.mul(Rat::new(ni, ni - 1))) };
        let vomr = if n < 2 { Rat::int(0) } else { m2.mul(Rat::new(ni, ni - 1)).div(Rat::int(ni)) };
        let m3 = bag.central_moment(3);
        let m4 = bag.central_moment(4);
        let skew = if m3.is_zero() { zero } else { root(m3.sign(), m3.mul(m3).div(m2.powi(3))) };
        let kurt = if m4.is_zero() { zero } else { SpecVal::R(m4.div(m2.mul(m2)).sub(Rat::int(3))) };
        let mut cm = vec![SpecVal::R(Rat::int(1)), zero];
        let mut sm = vec![SpecVal::R(Rat::int(ni)), zero, SpecVal::R(Rat::int(1))];
        for q in 2..=p {
            cm.push(SpecVal::R(bag.central_moment(q as u32)));
        }
        for q in 3..=p {
            sm.push(if m2.is_zero() {
                SpecVal::Panic
            } else {
                let c = bag.central_moment(q as u32);
                if q % 2 == 0 { SpecVal::R(c.div(m2.powi(q as u32 / 2))) } else { root(c.sign(), c.mul(c).div(m2.powi(q as u32))) }
            });
        }
        let ssk = if n == 1 {
            zero
        } else if m2.is_zero() {
            nan
        } else if n == 2 {
            zero
        } else {
            root(m3.sign(), Rat::new(ni * (ni - 1), (ni - 2) * (ni - 2)).mul(m3.mul(m3).div(m2.powi(3))))
        };
        let sku = if n < 4 || m2.is_zero() {
            nan
        } else {
            let g2 = m4.div(m2.mul(m2)).sub(Rat::int(3));
            SpecVal::R(Rat::new(ni - 1, (ni - 2) * (ni - 3)).mul(g2.mul(Rat::int(ni + 1)).add(Rat::int(6))))
        };
        SlotSpec {
            n,
            mean: SpecVal::R(bag.mean()),
            pvar: SpecVal::R(m2),
            svar,
            vom: SpecVal::R(vomr),
            err: root(1, vomr),
            skew,
            kurt,
            cm,
            sm,
            ssk,
            sku,
            data,
        }
    }
    /// Long streams: exact central moments (i128 rationals), derived statistics formed in f64.
    fn from_data_f64(data: Vec<i64>, p: usize) -> SlotSpec {
        let n = data.len() as u64;
        let nf = n as f64;
        let bag = Bag(&data);
        let m: Vec<f64> = (0..=p.max(4)).map(|q| if q < 2 { (1 - q as i64) as f64 } else { bag.central_moment(q as u32).to_f64() }).collect();
        let f = SpecVal::F;
        let constant = bag.is_constant();
        let zero = SpecVal::R(Rat::int(0));
        let svar = m[2] * nf / (nf - 1.0);
        let skew = if constant { zero } else { f(m[3] / m[2].powf(1.5)) };
        let kurt = if constant { zero } else { f(m[4] / (m[2] * m[2]) - 3.0) };
        let mut cm = vec![SpecVal::R(Rat::int(1)), zero];
        let mut sm = vec![SpecVal::R(Rat::int(n as i128)), zero, SpecVal::R(Rat::int(1))];
        for q in 2..=p {
            cm.push(if constant { zero } else { f(m[q]) });
        }
        for q in 3..=p {
            sm.push(if constant { SpecVal::Panic } else { f(m[q] / m[2].sqrt().powi(q as i32)) });
        }
        SlotSpec {
            n,
            mean: SpecVal::R(bag.mean()),
            pvar: if constant { zero } else { f(m[2]) },
            svar: if constant { zero } else { f(svar) },
            vom: if constant { zero } else { f(svar / nf) },
            err: if constant { zero } else { f((svar / nf).sqrt()) },
            skew,
            kurt,
            cm,
            sm,
            ssk: if constant { SpecVal::NaN } else { f((nf * (nf - 1.0)).sqrt() / (nf - 2.0) * m[3] / m[2].powf(1.5)) },
            sku: if constant { SpecVal::NaN } else { f((nf - 1.0) / ((nf - 2.0) * (nf - 3.0)) * ((nf + 1.0) * (m[4] / (m[2] * m[2]) - 3.0) + 6.0)) },
            data,
        }
    }
    /// highest order the specification run carried
    pub fn p(&self) -> usize {
        self.cm.len() - 1
    }
}

/// What a job wants checked; `prop` filters which violations are reported.
#[derive(Clone)]
pub struct Want {
    pub prop: String,
    pub types: Vec<String>,
    pub embeddings: Vec<Embedding>,
}

impl Want {
    fn is(&self, p: &str) -> bool {
        self.prop == p
    }
    fn envelope_family(&self) -> bool {
        matches!(self.prop.as_str(), "C01" | "C02" | "C03" | "C04" | "C10" | "C16" | "C19")
    }
}

/// Lattice-level quantities needed for the envelopes, computed once per slot.
pub struct Ctx<'a> {
    spec: &'a SlotSpec,
    n: f64,
    constant: bool,
    sigma_v: f64,
    /// A_p(v) = (1/n) sum |v - mean|^p for p = 0..=10 (lattice units)
    abs_cm: Vec<f64>,
    m4_over_s4: f64,
    vmin: i64,
    vmax: i64,
}

impl<'a> Ctx<'a> {
    pub fn new(spec: &'a SlotSpec) -> Ctx<'a> {
        let bag = Bag(&spec.data);
        let n = spec.data.len() as f64;
        if spec.data.is_empty() {
            return Ctx { spec, n, constant: true, sigma_v: 0.0, abs_cm: vec![0.0; 11], m4_over_s4: 0.0, vmin: 0, vmax: 0 };
        }
        let var = bag.central_moment(2).to_f64();
        let sigma_v = var.sqrt();
        // tolerance scales only: exact for short data, f64 for long streams (i128 would overflow)
        let abs_cm: Vec<f64> = if spec.data.len() <= 64 {
            (0..=10u32).map(|p| bag.abs_central_sum(p).to_f64() / n).collect()
        } else {
            let mean = bag.mean().to_f64();
            (0..=10i32).map(|p| spec.data.iter().map(|&x| (x as f64 - mean).abs().powi(p)).sum::<f64>() / n).collect()
        };
        let m4 = bag.central_moment(4).to_f64();
        Ctx {
            spec,
            n,
            constant: bag.is_constant(),
            sigma_v,
            abs_cm,
            m4_over_s4: if var > 0.0 { m4 / (var * var) } else { 0.0 },
            vmin: bag.min(),
            vmax: bag.max(),
        }
    }
}

fn expected_for(acc: Acc, s: &SlotSpec) -> Option<SpecVal> {
    Some(match acc {
        Acc::Len => SpecVal::R(Rat::int(s.n as i128)),
        Acc::IsEmpty => SpecVal::R(Rat::int((s.n == 0) as i128)),
        Acc::Mean => s.mean,
        Acc::PVar => s.pvar,
        Acc::SVar => s.svar,
        Acc::VoM => s.vom,
        Acc::Err => s.err,
        Acc::Skew => s.skew,
        Acc::Kurt => s.kurt,
        Acc::Cm(p) => {
            if (p as usize) < s.cm.len() {
                s.cm[p as usize]
            } else {
                return None;
            }
        }
        Acc::Sm(p) => {
            if (p as usize) < s.sm.len() {
                s.sm[p as usize]
            } else {
                return None;
            }
        }
        Acc::SSk => s.ssk,
        Acc::SKu => s.sku,
        Acc::Estimate => return None,
    })
}

/// Expected values for orders the specification run did not carry (P smaller than the type's
/// order): the harness's own definitional evaluation, which is cross-checked against the
/// specification on every order both have.
fn expected_beyond(acc: Acc, s: &SlotSpec) -> Option<SpecVal> {
    let bag = Bag(&s.data);
    match acc {
        Acc::Cm(p) => Some(if s.n == 0 { SpecVal::NaN } else { SpecVal::R(bag.central_moment(p as u32)) }),
        Acc::Sm(p) => {
            if s.n == 0 {
                return Some(SpecVal::NaN);
            }
            let var = bag.central_moment(2);
            if var.is_zero() {
                return Some(SpecVal::Panic);
            }
            let cm = bag.central_moment(p as u32);
            Some(if p % 2 == 0 {
                SpecVal::R(cm.div(var.powi(p as u32 / 2)))
            } else if cm.is_zero() {
                SpecVal::R(Rat::int(0))
            } else {
                SpecVal::Root(cm.sign(), cm.mul(cm).div(var.powi(p as u32)))
            })
        }
        _ => None,
    }
}

fn crosscheck(s: &SlotSpec, rep: &mut Report) {
    // the harness's exact evaluator (used alone on long streams) must agree with the
    // specification on the complete accessor table wherever the specification has values
    {
        let own = SlotSpec::from_data(s.data.clone(), s.p().min(4));
        let pairs = [(own.mean, s.mean), (own.pvar, s.pvar), (own.svar, s.svar), (own.vom, s.vom), (own.err, s.err), (own.skew, s.skew), (own.kurt, s.kurt), (own.ssk, s.ssk), (own.sku, s.sku)];
        for (i, (a, b)) in pairs.iter().enumerate() {
            if a != b {
                rep.tool_errors.push(format!("exact evaluator disagrees with the specification on accessor #{i} for {:?}: {:?} vs {:?}", s.data, a, b));
            }
            rep.crosschecks += 1;
        }
        for q in 0..own.sm.len().min(s.sm.len()) {
            if own.sm[q] != s.sm[q] {
                rep.tool_errors.push(format!("exact evaluator disagrees with the specification on standardized moment {q} for {:?}", s.data));
            }
            rep.crosschecks += 1;
        }
    }
    if s.data.is_empty() {
        return;
    }
    let bag = Bag(&s.data);
    if let SpecVal::R(m) = s.mean {
        if m != bag.mean() {
            rep.tool_errors.push(format!("oracle disagreement on mean for {:?}", s.data));
        }
        rep.crosschecks += 1;
    }
    for p in 2..s.cm.len() {
        if let SpecVal::R(c) = s.cm[p] {
            if c != bag.central_moment(p as u32) {
                rep.tool_errors.push(format!("oracle disagreement on central moment {p} for {:?}", s.data));
            }
            rep.crosschecks += 1;
        }
    }
}

struct World<T: MomT> {
    slots: Vec<T>,
    ghost: Vec<Vec<i64>>,
    /// slot built without any merge (adds, clones of add-only slots, checkpoints)
    addonly: Vec<bool>,
    /// which of Clone::clone / Clone::clone_from a Clone step uses (a history with a Clone step is
    /// replayed with both)
    parity: usize,
}

impl<T: MomT> World<T> {
    fn new(k: usize) -> Self {
        World { slots: (0..k).map(|i| if i % 2 == 0 { T::new() } else { T::default_() }).collect(), ghost: vec![vec![]; k], addonly: vec![true; k], parity: 0 }
    }
}

fn obs_bits<T: MomT>(t: &T) -> Vec<(Acc, Option<u64>)> {
    let mut v = Vec::new();
    t.observe(&mut v);
    v.into_iter().map(|(a, x)| (a, x.map(bits))).collect()
}

fn first_diff(a: &[(Acc, Option<u64>)], b: &[(Acc, Option<u64>)]) -> Option<String> {
    for (x, y) in a.iter().zip(b.iter()) {
        if x != y {
            return Some(format!(
                "{}: {} vs {}",
                x.0.name(),
                x.1.map(|v| fmt_f(f64::from_bits(v))).unwrap_or("panic".into()),
                y.1.map(|v| fmt_f(f64::from_bits(v))).unwrap_or("panic".into())
            ));
        }
    }
    None
}

fn tags<T: MomT>(acc: Acc, addonly: bool, n: u64, constant: bool, exp: SpecVal) -> Vec<&'static str> {
    let mut t = Vec::new();
    // the bias-corrected statistics of define_moments! types are C10's alone
    let sample_stat = matches!(acc, Acc::SVar | Acc::VoM | Acc::Err | Acc::SSk | Acc::SKu);
    if !(T::GENERIC && sample_stat) {
        if !addonly {
            t.push("C02");
        } else if T::GENERIC {
            t.push("C04");
        } else if T::ORDER <= 2 {
            t.push("C01");
        } else {
            t.push("C03");
        }
    }
    if sample_stat {
        t.push("C10");
    }
    if n <= 1 || matches!(exp, SpecVal::NaN | SpecVal::Panic) || (constant && addonly) {
        t.push("C16");
    }
    if matches!(acc, Acc::Len | Acc::IsEmpty) {
        t.push("C11");
    }
    t
}

#[allow(clippy::too_many_arguments)]
fn viol<T: MomT>(
    rep: &mut Report,
    prop: &str,
    e: &Embedding,
    h: &Value,
    slot: usize,
    acc: &str,
    what: String,
    detail: Value,
) {
    rep.violation(json!({
        "property": prop,
        "family": "moments",
        "type": T::NAME,
        "embedding": e.name,
        "history": h,
        "slot": slot + 1,
        "accessor": acc,
        "what": what,
        "detail": detail,
        "signature": format!("{}|{}|{}", prop, T::NAME, acc),
    }));
}

/// Compare one observation with the specification under the envelope rules.  Returns an error
/// description if it does not conform, None if it does or if the case is outside the
/// property's quantifier (counted in `rep.counters`).
fn check_obs<T: MomT>(
    acc: Acc,
    obs: Option<f64>,
    exp: SpecVal,
    cx: &Ctx,
    e: &Embedding,
    addonly: bool,
    rep: &mut Report,
) -> Option<(String, Value)> {
    let n = cx.n;
    // ----- sentinels / integers
    match acc {
        Acc::Len | Acc::IsEmpty => {
            let want = exp.to_f64();
            return match obs {
                Some(o) if o == want => None,
                o => Some((format!("expected exactly {want}, observed {:?}", o), json!({}))),
            };
        }
        _ => {}
    }
    match exp {
        SpecVal::NaN => {
            return match obs {
                Some(o) if o.is_nan() => None,
                Some(o) => Some((format!("expected the NaN sentinel, observed {}", fmt_f(o)), json!({}))),
                None => Some(("expected the NaN sentinel, accessor panicked".into(), json!({}))),
            };
        }
        SpecVal::Panic => {
            // the one documented assertion (standardized_moment on zero variance): a panic or a
            // non-finite value is accepted; when the variance is not exactly zero in f64 (after
            // merges) nothing is required.
            return match obs {
                None => None,
                Some(o) if !o.is_finite() => None,
                Some(o) if addonly => Some((format!("zero variance: expected the documented panic or a non-finite value, observed {}", fmt_f(o)), json!({}))),
                Some(_) => None,
            };
        }
        _ => {}
    }
    let obs = match obs {
        Some(o) => o,
        None => return Some(("accessor panicked".into(), json!({}))),
    };
    // ----- fixed values independent of data
    if matches!(acc, Acc::Cm(0) | Acc::Cm(1) | Acc::Sm(0) | Acc::Sm(1) | Acc::Sm(2)) {
        let want = exp.to_f64();
        return if obs == want { None } else { Some((format!("expected exactly {want}, observed {}", fmt_f(obs)), json!({}))) };
    }
    let x_max = e.x(cx.vmin).abs().max(e.x(cx.vmax).abs());
    // ----- constant data / single observation: exact contract (C16) for add-only streams
    if cx.constant {
        if addonly || cx.spec.n == 1 {
            let want = match acc {
                Acc::Mean => e.x(cx.spec.data[0]),
                Acc::SSk | Acc::SKu => {
                    if cx.spec.n == 1 && acc == Acc::SSk {
                        0.0
                    } else {
                        rep.bump("skipped_zero_over_zero", 1);
                        return None;
                    }
                }
                _ => 0.0,
            };
            return if obs == want && !(want == 0.0 && obs.is_nan()) {
                None
            } else {
                Some((format!("constant data: expected exactly {}, observed {}", fmt_f(want), fmt_f(obs)), json!({})))
            };
        } else {
            // merged constant data: only the range/sign contract applies (C17)
            rep.bump("skipped_constant_after_merge", 1);
            return None;
        }
    }
    // ----- envelope
    let sigma = e.b * cx.sigma_v;
    let kappa = 1.0 + x_max / sigma;
    if !(kappa <= 1.0e12) {
        rep.bump("skipped_kappa_gt_1e12", 1);
        return None;
    }
    let order = T::ORDER.max(2) as i32;
    if n * x_max.powi(order) >= 1e300 {
        rep.bump("skipped_overflow_side_condition", 1);
        return None;
    }
    let bp = |p: i32| e.b.powi(p);
    let r = exp.to_f64();
    let ap = |p: usize| cx.abs_cm[p];
    let sig_v_p = |p: i32| cx.sigma_v.powi(p);
    // (expected value s*, difference obs - s*, C, scale)
    let (sstar, diff, c, scale): (f64, f64, f64, f64) = match acc {
        Acc::Mean => {
            let s = e.a + e.b * r;
            let d = (obs - e.a) - e.b * r;
            // mean: bound = C*n*u*(sigma + X)  ==  C*n*kappa*u*sigma
            (s, d, 8.0, sigma)
        }
        Acc::PVar | Acc::SVar | Acc::VoM => {
            let s = bp(2) * r;
            (s, obs - s, 16.0, s)
        }
        Acc::Err => {
            let s = e.b * r;
            (s, obs - s, 16.0, s)
        }
        Acc::Skew => (r, obs - r, 32.0, ap(3) / sig_v_p(3)),
        Acc::Kurt => (r, obs - r, 32.0, cx.m4_over_s4),
        Acc::Cm(p) => {
            let s = bp(p as i32) * r;
            (s, obs - s, 16.0 * p as f64, bp(p as i32) * ap(p as usize))
        }
        Acc::Sm(p) => (r, obs - r, 16.0 * p as f64, ap(p as usize) / sig_v_p(p as i32)),
        Acc::SSk => {
            let f = if n > 2.0 { (n * (n - 1.0)).sqrt() / (n - 2.0) } else { 1.0 };
            (r, obs - r, 64.0, f * ap(3) / sig_v_p(3))
        }
        Acc::SKu => {
            let d = (n - 2.0) * (n - 3.0);
            (r, obs - r, 64.0, (n * n - 1.0) / d * cx.m4_over_s4 + 3.0 * (n - 1.0) * (n - 1.0) / d)
        }
        _ => return None,
    };
    if sstar != 0.0 && sstar.abs() < 1e-290 || scale != 0.0 && scale.abs() < 1e-290 {
        rep.bump("skipped_underflow", 1);
        return None;
    }
    let tol = c * n * kappa * U * scale.abs() + 4.0 * U * sstar.abs();
    if diff.abs() <= tol {
        None
    } else {
        Some((
            format!(
                "observed {} but the exact value is {} (|diff| = {:e} > envelope {:e})",
                fmt_f(obs),
                fmt_f(sstar),
                diff.abs(),
                tol
            ),
            json!({"n": n, "kappa": kappa, "C": c, "scale": scale, "ratio_to_envelope": diff.abs() / tol,
                   "spec_value": format!("{:?}", exp)}),
        ))
    }
}

/// C17: sign and range conditions, any conditioning.
fn check_c17<T: MomT>(acc: Acc, obs: Option<f64>, exp: SpecVal, cx: &Ctx, e: &Embedding) -> Option<String> {
    if cx.spec.n == 0 {
        return None;
    }
    let defined = !matches!(exp, SpecVal::NaN | SpecVal::Panic);
    match acc {
        Acc::PVar | Acc::SVar | Acc::VoM | Acc::Cm(2) if defined => match obs {
            Some(o) if o >= 0.0 => None,
            o => Some(format!("must be >= 0, observed {:?}", o)),
        },
        Acc::Err if defined => match obs {
            Some(o) if o >= 0.0 => None,
            o => Some(format!("error() must be a real number >= 0, observed {:?}", o)),
        },
        Acc::Mean if defined => {
            let lo = e.x(cx.vmin);
            let hi = e.x(cx.vmax);
            let x_max = lo.abs().max(hi.abs());
            let slack = 8.0 * cx.n * U * x_max;
            match obs {
                Some(o) if o >= lo - slack && o <= hi + slack => None,
                o => Some(format!("mean must lie in [{:e}, {:e}] (slack {:e}), observed {:?}", lo, hi, slack, o)),
            }
        }
        _ => None,
    }
}

fn apply<T: MomT>(w: &mut World<T>, op: &Op, e: &Embedding, roundtrip: bool) {
    match *op {
        Op::Add(s, v) => {
            w.slots[s].add(e.x(v));
            w.ghost[s].push(v);
        }
        Op::Merge(d, s) => {
            let src = w.slots[s].clone();
            w.slots[d].merge(&src);
            let g = w.ghost[s].clone();
            w.ghost[d].extend(g);
            w.addonly[d] = false;
        }
        Op::Clone(d, s) => {
            // Clone::clone / Clone::clone_from alternately: the same step of the specification
            let src = w.slots[s].clone();
            if (w.ghost[d].len() + w.ghost[s].len() + w.parity) % 2 == 1 {
                w.slots[d].clone_from(&src);
            } else {
                w.slots[d] = src;
            }
            w.ghost[d] = w.ghost[s].clone();
            w.addonly[d] = w.addonly[s];
        }
        Op::Fresh(s) => {
            // T::new() and Default::default() are the same empty estimator: use them alternately
            w.slots[s] = if (s + w.ghost.iter().map(|g| g.len()).sum::<usize>()) % 2 == 0 { T::new() } else { T::default_() };
            w.ghost[s].clear();
            w.addonly[s] = true;
        }
        Op::Ckpt(s) => {
            if roundtrip {
                let j = w.slots[s].to_json();
                w.slots[s] = T::from_json(&j);
            }
        }
    }
}


/// Compare every public accessor of `obj` with the specification values in `spec`.
#[allow(clippy::too_many_arguments)]
pub fn check_final<T: MomT>(obj: &T, spec: &SlotSpec, cx: &Ctx, e: &Embedding, addonly: bool, want: &Want, rep: &mut Report, h: &Value, s: usize, with_data: bool) {
    let mut obs = Vec::new();
    obj.observe(&mut obs);
    for (acc, o) in obs.iter().copied() {
        let exp = match expected_for(acc, spec).or_else(|| expected_beyond(acc, spec)) {
            Some(x) => x,
            None => continue,
        };
        if want.is("C17") {
            rep.evaluations += 1;
            if let Some(what) = check_c17::<T>(acc, o, exp, cx, e) {
                viol::<T>(rep, "C17", e, h, s, &acc.name(), what, if with_data { json!({"data": spec.data}) } else { json!({}) });
            }
            continue;
        }
        let tg = tags::<T>(acc, addonly, spec.n, cx.constant, exp);
        // C19 (parallel collection) is decided on the fold/reduce-shaped histories by the
        // same comparisons as C02 (merge == concatenation)
        let tagprop = if want.is("C19") { "C02" } else { want.prop.as_str() };
        if !tg.contains(&tagprop) && !(want.is("C19") && tg.contains(&"C11")) {
            continue;
        }
        rep.evaluations += 1;
        if let Some((what, mut detail)) = check_obs::<T>(acc, o, exp, cx, e, addonly, rep) {
            if with_data {
                detail["data"] = json!(spec.data);
            }
            viol::<T>(rep, &want.prop, e, h, s, &acc.name(), what, detail);
        }
    }
}

/// Replay one emitted state on one type under one embedding.
fn replay_one<T: MomT>(h: &Value, ops: &[Op], specs: &[SlotSpec], cxs: &[Ctx], e: &Embedding, want: &Want, rep: &mut Report, parity: usize) {
    let k = specs.len();
    rep.replays += 1;
    let mut w = World::<T>::new(k);
    // parity & 1: which Clone variant; parity & 2: every accessor of every object is also read after
    // every step (a getter must not change what later steps compute: memoised results, lazily
    // refreshed caches)
    w.parity = parity % 2;
    let reads_between = parity >= 2;
    let has_ckpt = ops.iter().any(|o| matches!(o, Op::Ckpt(_)));
    for (step, op) in ops.iter().enumerate() {
        // ---- C11: merge laws, implementation against implementation, bit for bit
        if let (true, Op::Merge(d, s)) = (want.is("C11"), op) {
            let (d, s) = (*d, *s);
            let d0 = obs_bits(&w.slots[d]);
            let s0 = obs_bits(&w.slots[s]);
            let (ld, ls) = (w.ghost[d].len(), w.ghost[s].len());
            // call merge with a reference to the live source object
            {
                let (dst, src): (&mut T, &T) = if d < s {
                    let (a, b) = w.slots.split_at_mut(s);
                    (&mut a[d], &b[0])
                } else {
                    let (a, b) = w.slots.split_at_mut(d);
                    (&mut b[0], &a[s])
                };
                dst.merge(src);
            }
            let g = w.ghost[s].clone();
            w.ghost[d].extend(g);
            w.addonly[d] = false;
            let d1 = obs_bits(&w.slots[d]);
            let s1 = obs_bits(&w.slots[s]);
            rep.evaluations += 4;
            let fail = |what: String, rep: &mut Report| {
                viol::<T>(rep, "C11", e, h, d, "merge", what, json!({"step": step + 1, "op": format!("{:?}", op)}));
            };
            if let Some(df) = first_diff(&s0, &s1) {
                fail(format!("merge modified its argument: {df}"), rep);
            }
            let len_of = |o: &[(Acc, Option<u64>)]| o.iter().find(|x| x.0 == Acc::Len).and_then(|x| x.1).map(f64::from_bits);
            if len_of(&d1) != Some((ld + ls) as f64) {
                fail(format!("merged len {:?} != {} + {}", len_of(&d1), ld, ls), rep);
            }
            let empty_of = |o: &[(Acc, Option<u64>)]| o.iter().find(|x| x.0 == Acc::IsEmpty).and_then(|x| x.1).map(f64::from_bits);
            if empty_of(&d1) != Some(((ld + ls) == 0) as u8 as f64) {
                fail(format!("is_empty() = {:?} with len {}", empty_of(&d1), ld + ls), rep);
            }
            if ls == 0 {
                if let Some(df) = first_diff(&d0, &d1) {
                    fail(format!("merging an empty estimator changed the destination: {df}"), rep);
                }
            }
            if ld == 0 {
                if let Some(df) = first_diff(&s0, &d1) {
                    fail(format!("merging into an empty estimator did not reproduce the source: {df}"), rep);
                }
            }
            continue;
        }
        apply(&mut w, op, e, false);
        if reads_between {
            for s in 0..k {
                let _ = obs_bits(&w.slots[s]);
            }
        }
    }
    // ghost data must agree with the specification's (binding check)
    for s in 0..k {
        if w.ghost[s] != specs[s].data {
            rep.tool_errors.push(format!("ghost data mismatch slot {s}: harness {:?} spec {:?}", w.ghost[s], specs[s].data));
            return;
        }
    }
    // ---- final observations against the specification
    if want.envelope_family() || want.is("C17") || want.is("C11") {
        for s in 0..k {
            check_final::<T>(&w.slots[s], &specs[s], &cxs[s], e, w.addonly[s], want, rep, h, s, true);
        }
    }
    // ---- C18: the same history with a serde round trip at every checkpoint
    if want.is("C18") && has_ckpt {
        let mut w1 = World::<T>::new(k);
        w1.parity = parity % 2;
        for (step, op) in ops.iter().enumerate() {
            if let Op::Ckpt(s) = op {
                let before = obs_bits(&w1.slots[*s]);
                let j = w1.slots[*s].to_json();
                let after = obs_bits(&w1.slots[*s]);
                let restored = T::from_json(&j);
                let rb = obs_bits(&restored);
                rep.evaluations += 2;
                if let Some(df) = first_diff(&before, &after) {
                    viol::<T>(rep, "C18", e, h, *s, "serialize", format!("serialising modified the estimator: {df}"), json!({"step": step + 1}));
                }
                if let Some(df) = first_diff(&before, &rb) {
                    viol::<T>(rep, "C18", e, h, *s, "roundtrip", format!("restored estimator differs: {df}"), json!({"step": step + 1, "json": j}));
                }
                if T::from_json(&j).to_json() != j {
                    viol::<T>(rep, "C18", e, h, *s, "roundtrip", "re-serialising the restored estimator gives different text".into(), json!({"step": step + 1, "json": j}));
                }
                // the same through a positional (not self-describing) lossless format; the stream
                // continues on the JSON copy at even steps and on the positional copy at odd ones
                let mut restored = restored;
                match w1.slots[*s].roundtrip_pos() {
                    Ok(rp) => {
                        rep.evaluations += 1;
                        if let Some(df) = first_diff(&before, &obs_bits(&rp)) {
                            viol::<T>(rep, "C18", e, h, *s, "roundtrip (positional format)", format!("restored estimator differs: {df}"), json!({"step": step + 1, "json": j}));
                        }
                        if step % 2 == 1 {
                            restored = rp;
                        }
                    }
                    Err(_) => rep.bump("positional_format_not_supported", 1),
                }
                w1.slots[*s] = restored;
            } else {
                apply(&mut w1, op, e, true);
            }
        }
        for s in 0..k {
            rep.evaluations += 1;
            if let Some(df) = first_diff(&obs_bits(&w.slots[s]), &obs_bits(&w1.slots[s])) {
                viol::<T>(rep, "C18", e, h, s, "continue", format!("continuing on the restored copy diverged from the uninterrupted computation: {df}"), json!({}));
            }
        }
    }
}

fn run_type<T: MomT>(h: &Value, ops: &[Op], specs: &[SlotSpec], cxs: &[Ctx], want: &Want, rep: &mut Report) {
    if !want.types.iter().any(|t| t == T::NAME) {
        return;
    }
    let clones = ops.iter().any(|o| matches!(o, Op::Clone(_, _)));
    let parities: &[usize] = match (clones, ops.len() >= 2) {
        (true, true) => &[0, 1, 2, 3],
        (true, false) => &[0, 1],
        (false, true) => &[0, 2],
        (false, false) => &[0],
    };
    for e in &want.embeddings {
        for &parity in parities {
            let r = std::panic::catch_unwind(std::panic::AssertUnwindSafe(|| replay_one::<T>(h, ops, specs, cxs, e, want, &mut *rep, parity)));
            if r.is_err() {
                viol::<T>(rep, &want.prop, e, h, 0, "panic", "the code under test panicked outside an accessor (new / add / merge / clone / serde)".into(), json!({}));
            }
        }
    }
}

/// Process one emitted line.
pub fn process_line(v: &Value, want: &Want, rep: &mut Report) {
    let h = &v["h"];
    let ops = parse_ops(h);
    let specs: Vec<SlotSpec> = v["s"].as_array().unwrap().iter().map(SlotSpec::parse).collect();
    let cxs: Vec<Ctx> = specs.iter().map(Ctx::new).collect();
    let hs = hash_str(&h.to_string());
    rep.behaviours += 1;
    let kept_before = rep.violations.len();
    if !rep.distinct.insert(hs) {
        rep.bump("duplicate_histories", 1);
        return;
    }
    if specs.iter().any(|s| s.n >= 2 && !Bag(&s.data).is_constant()) {
        rep.nontrivial.insert(hs);
    }
    for s in &specs {
        crosscheck(s, rep);
    }
    if rep.nontrivial.contains(&hs) {
        rep.sample(json!({"history": h, "spec_slot1": {"n": specs[0].n, "data": specs[0].data,
        "mean": format!("{:?}", specs[0].mean), "pvar": format!("{:?}", specs[0].pvar)}}));
    }
    run_type::<average::Mean>(h, &ops, &specs, &cxs, want, rep);
    run_type::<average::Variance>(h, &ops, &specs, &cxs, want, rep);
    run_type::<average::Skewness>(h, &ops, &specs, &cxs, want, rep);
    run_type::<average::Kurtosis>(h, &ops, &specs, &cxs, want, rep);
    run_type::<average::Moments4>(h, &ops, &specs, &cxs, want, rep);
    run_type::<m4::M4>(h, &ops, &specs, &cxs, want, rep);
    run_type::<m5::M5>(h, &ops, &specs, &cxs, want, rep);
    run_type::<m6::M6>(h, &ops, &specs, &cxs, want, rep);
    run_type::<m8::M8>(h, &ops, &specs, &cxs, want, rep);
    run_type::<m10::M10>(h, &ops, &specs, &cxs, want, rep);
    for x in rep.violations.iter_mut().skip(kept_before) {
        x["line"] = v.clone();
    }
}
