//! Exact arithmetic helpers.
//!
//! * `Rat`: i128 rationals, used (a) to read the specification's exact values and (b) to evaluate
//!   the *definitional* statistics of a lattice bag independently of TLC, so that every exported
//!   specification value can be cross-checked (`oracle_crosschecks` in the evidence).
//! * conversion of a specification value under an exact affine embedding into the f64 the real
//!   code is expected to approximate.

use serde_json::Value;

pub fn gcd(a: i128, b: i128) -> i128 {
    let (mut a, mut b) = (a.abs(), b.abs());
    while b != 0 {
        let t = a % b;
        a = b;
        b = t;
    }
    a
}

#[derive(Clone, Copy, Debug, PartialEq, Eq)]
pub struct Rat {
    pub n: i128,
    pub d: i128,
}

impl Rat {
    pub fn new(n: i128, d: i128) -> Rat {
        assert!(d != 0);
        if n == 0 {
            return Rat { n: 0, d: 1 };
        }
        let g = gcd(n, d);
        let s = if d < 0 { -1 } else { 1 };
        Rat { n: s * n / g, d: s * d / g }
    }
    pub fn int(i: i128) -> Rat {
        Rat { n: i, d: 1 }
    }
    pub fn add(self, o: Rat) -> Rat {
        let g = gcd(self.d, o.d);
        Rat::new(
            self.n.checked_mul(o.d / g).unwrap().checked_add(o.n.checked_mul(self.d / g).unwrap()).unwrap(),
            (self.d / g).checked_mul(o.d).unwrap(),
        )
    }
    pub fn sub(self, o: Rat) -> Rat {
        self.add(Rat { n: -o.n, d: o.d })
    }
    pub fn mul(self, o: Rat) -> Rat {
        if self.n == 0 || o.n == 0 {
            return Rat::int(0);
        }
        let g1 = gcd(self.n, o.d);
        let g2 = gcd(o.n, self.d);
        Rat::new(
            (self.n / g1).checked_mul(o.n / g2).unwrap(),
            (self.d / g2).checked_mul(o.d / g1).unwrap(),
        )
    }
    pub fn div(self, o: Rat) -> Rat {
        assert!(o.n != 0);
        self.mul(Rat::new(o.d, o.n))
    }
    pub fn powi(self, e: u32) -> Rat {
        let mut r = Rat::int(1);
        for _ in 0..e {
            r = r.mul(self);
        }
        r
    }
    pub fn is_zero(self) -> bool {
        self.n == 0
    }
    pub fn sign(self) -> i32 {
        self.n.signum() as i32
    }
    /// Nearest f64 (both parts are converted with at most one rounding each and divided; the
    /// error is at most 1.5 ulp, far below every envelope; exact when both fit in 53 bits).
    pub fn to_f64(self) -> f64 {
        (self.n as f64) / (self.d as f64)
    }
}

/// A value exported by the specification for one accessor.
#[derive(Clone, Copy, Debug, PartialEq)]
pub enum SpecVal {
    NaN,
    Panic,
    /// exact rational
    R(Rat),
    /// sign * sqrt(rational)
    Root(i32, Rat),
    /// a value computed in f64 from exact central moments (long streams whose exact rational
    /// would not fit in 128 bits); accurate to a few ulps, far inside every envelope
    F(f64),
}

impl SpecVal {
    pub fn parse(v: &Value) -> SpecVal {
        match v {
            Value::String(s) if s == "nan" => SpecVal::NaN,
            Value::String(s) if s == "panic" => SpecVal::Panic,
            Value::Array(a) if a.len() == 2 => {
                SpecVal::R(Rat::new(a[0].as_i64().unwrap() as i128, a[1].as_i64().unwrap() as i128))
            }
            Value::Array(a) if a.len() == 3 => SpecVal::Root(
                a[0].as_i64().unwrap() as i32,
                Rat::new(a[1].as_i64().unwrap() as i128, a[2].as_i64().unwrap() as i128),
            ),
            _ => panic!("unparsable spec value {v}"),
        }
    }
    /// f64 value in lattice units (before embedding).
    pub fn to_f64(self) -> f64 {
        match self {
            SpecVal::NaN | SpecVal::Panic => f64::NAN,
            SpecVal::R(r) => r.to_f64(),
            SpecVal::Root(s, r) => (s as f64) * r.to_f64().sqrt(),
            SpecVal::F(x) => x,
        }
    }
    pub fn is_zero(self) -> bool {
        matches!(self, SpecVal::R(r) if r.is_zero())
    }
}

/// Definitional statistics of a bag of lattice integers, evaluated with i128 (never a recurrence).
pub struct Bag<'a>(pub &'a [i64]);

impl<'a> Bag<'a> {
    pub fn n(&self) -> i128 {
        self.0.len() as i128
    }
    pub fn s1(&self) -> i128 {
        self.0.iter().map(|&x| x as i128).sum()
    }
    pub fn mean(&self) -> Rat {
        Rat::new(self.s1(), self.n())
    }
    /// sum_i (x_i - mean)^p  as an exact rational:  sum_i (n x_i - S1)^p / n^p
    pub fn central_sum(&self, p: u32) -> Rat {
        let n = self.n();
        let s1 = self.s1();
        let mut num: i128 = 0;
        for &x in self.0 {
            let t = n * (x as i128) - s1;
            num = num.checked_add(t.checked_pow(p).expect("i128 overflow in exact evaluator")).expect("i128 overflow");
        }
        Rat::new(num, n.checked_pow(p).expect("i128 overflow"))
    }
    /// sum_i |x_i - mean|^p
    pub fn abs_central_sum(&self, p: u32) -> Rat {
        let n = self.n();
        let s1 = self.s1();
        let mut num: i128 = 0;
        for &x in self.0 {
            let t = (n * (x as i128) - s1).abs();
            num = num.checked_add(t.checked_pow(p).expect("i128 overflow")).expect("i128 overflow");
        }
        Rat::new(num, n.checked_pow(p).expect("i128 overflow"))
    }
    pub fn central_moment(&self, p: u32) -> Rat {
        self.central_sum(p).div(Rat::int(self.n()))
    }
    pub fn is_constant(&self) -> bool {
        self.0.windows(2).all(|w| w[0] == w[1])
    }
    pub fn min(&self) -> i64 {
        *self.0.iter().min().unwrap()
    }
    pub fn max(&self) -> i64 {
        *self.0.iter().max().unwrap()
    }
}

pub const U: f64 = 1.1102230246251565e-16; // 2^-53

/// Exact affine embedding x = a + b*v with b a power of two and a a multiple of b small enough
/// that every x is exactly representable.
#[derive(Clone, Copy, Debug)]
pub struct Embedding {
    pub name: &'static str,
    pub a: f64,
    pub b: f64,
}

impl Embedding {
    pub fn x(&self, v: i64) -> f64 {
        if self.name == "EM1" {
            // mixed magnitudes (C17): a monotone, NON-affine map of the lattice -- only the sign and
            // range conditions are checked under it, never a statistic's value
            return match v {
                i64::MIN..=-3 => -p2(497),
                -2 => -p2(40),
                -1 => -1.0,
                0 => p2(-600),
                1 => 1.0,
                2 => 1.5,
                _ => p2(496),
            };
        }
        if self.name == "E15" {
            // the top of the f64 range, both signs (C15 only: range / order conditions): the lattice
            // values 0..3 become -1.6e308, -5.4e307, 5.4e307, 1.6e308, all finite, whose
            // differences overflow
            return (v as f64 - 1.5) * self.b;
        }
        self.a + self.b * (v as f64)
    }
}

pub fn p2(k: i32) -> f64 {
    (2.0f64).powi(k)
}

pub fn embeddings(names: &[&str]) -> Vec<Embedding> {
    names.iter().map(|n| embedding(n)).collect()
}

pub fn embedding(name: &str) -> Embedding {
    match name {
        "E0" => Embedding { name: "E0", a: 0.0, b: 1.0 },
        "E1" => Embedding { name: "E1", a: 0.0, b: p2(-99) },
        "E2" => Embedding { name: "E2", a: 0.0, b: p2(97) },
        "E3" => Embedding { name: "E3", a: p2(30), b: 1.0 },
        "E4" => Embedding { name: "E4", a: -p2(40), b: 1.0 },
        "E5" => Embedding { name: "E5", a: p2(20), b: p2(-20) },
        // C17 only: no restriction on conditioning
        "E6" => Embedding { name: "E6", a: p2(52), b: 1.0 },
        "E7" => Embedding { name: "E7", a: 0.0, b: f64::from_bits(1) },
        "E8" => Embedding { name: "E8", a: 0.0, b: p2(496) },
        "E9" => Embedding { name: "E9", a: p2(497), b: p2(447) },
        // full 53-bit mantissas (2^26 + v * 2^-26): conditioning 2^52, used for the exact
        // contracts (C16) and the sign / range conditions (C17) only
        "E10" => Embedding { name: "E10", a: p2(26), b: p2(-26) },
        // near the top of the f64 range (values up to 3 * 2^1022 = 1.3e308): sums of two
        // observations overflow, the observations themselves do not (small-sample quantile, C07/C15)
        "E11" => Embedding { name: "E11", a: 0.0, b: p2(1022) },
        // far ends of the exponent range: products of two differences of observations underflow
        // (E12) / overflow (E13); sums and differences themselves stay exact
        "E12" => Embedding { name: "E12", a: 0.0, b: p2(-600) },
        "E13" => Embedding { name: "E13", a: 0.0, b: p2(600) },
        // the smallest normal numbers (|x| around 2^-1021 = 4.5e-308): a product of an observation
        // with a weight below 1, or with a ratio of counts, is subnormal and loses bits (C17)
        "E14" => Embedding { name: "E14", a: 0.0, b: p2(-1021) },
        "E15" => Embedding { name: "E15", a: 0.0, b: 1.2 * p2(1023) },
        // not a power of two: x = fl(0.1 * v) carries a rounding of its own, so sums of such values
        // are inexact at every step (compensated-summation carries are non-zero).  Only for
        // comparisons of two real executions (C18) and panic / length checks, never for values.
        "E16" => Embedding { name: "E16", a: 0.0, b: 0.1 },
        "EM1" => Embedding { name: "EM1", a: 0.0, b: 1.0 },
        _ => panic!("unknown embedding {name}"),
    }
}
