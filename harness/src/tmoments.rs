//! Implementation -> specification for the moment family with ARBITRARY f64 data:
//! `record --family moments` drives the real estimators with full-mantissa values (uniform,
//! skewed, heavy-tailed, offset, clustered, near-constant, extreme-magnitude streams; add-only and
//! add / merge / clone / serde histories) and logs every value exactly - each finite f64 is the
//! dyadic rational m * 2^e, written as a Big.tla integer (sign, base-10000 limbs) and a binary
//! exponent.  Trace_Moments.tla recomputes the exact statistics in unbounded rational arithmetic
//! inside TLC and accepts or rejects; nothing is judged here.

use crate::report::*;
use crate::types::*;
use rand::{Rng, SeedableRng};
use rand_xoshiro::Xoshiro256PlusPlus;
use serde_json::{json, Value};
use std::io::Write;

/// finite f64 -> (sign, limbs base 10^4 least significant first, binary exponent), mantissa odd or zero
pub fn dyadic(x: f64) -> (i32, Vec<u32>, i32) {
    let bits = x.to_bits();
    let sign = if bits >> 63 == 1 { -1 } else { 1 };
    let exp_bits = ((bits >> 52) & 0x7ff) as i32;
    let frac = bits & ((1u64 << 52) - 1);
    let (mut m, mut e) = if exp_bits == 0 { (frac, -1074) } else { (frac | (1u64 << 52), exp_bits - 1075) };
    if m == 0 {
        return (0, vec![], 0);
    }
    while m & 1 == 0 {
        m >>= 1;
        e += 1;
    }
    let mut limbs = Vec::new();
    while m > 0 {
        limbs.push((m % 10_000) as u32);
        m /= 10_000;
    }
    (sign, limbs, e)
}

fn val(x: Option<f64>) -> Value {
    match x {
        None => json!({"c": "panic"}),
        Some(v) if v.is_nan() => json!({"c": "nan"}),
        Some(v) if v == f64::INFINITY => json!({"c": "pinf"}),
        Some(v) if v == f64::NEG_INFINITY => json!({"c": "ninf"}),
        Some(v) => {
            let (s, l, e) = dyadic(v);
            json!({"c": "fin", "m": [s, l], "e": e})
        }
    }
}

fn obs_event<T: MomT>(id: usize, t: &T) -> Value {
    let mut v = Vec::new();
    t.observe(&mut v);
    let mut st = serde_json::Map::new();
    let mut cm: Vec<(u8, Value)> = Vec::new();
    let mut sm: Vec<(u8, Value)> = Vec::new();
    for (a, x) in v {
        let key = match a {
            Acc::Mean => "mean",
            Acc::PVar => "pvar",
            Acc::SVar => "svar",
            Acc::VoM => "vmean",
            Acc::Err => "err",
            Acc::Skew => "skew",
            Acc::Kurt => "kurt",
            Acc::SSk => "ssk",
            Acc::SKu => "sku",
            Acc::Cm(p) => {
                cm.push((p, val(x)));
                continue;
            }
            Acc::Sm(p) => {
                sm.push((p, val(x)));
                continue;
            }
            Acc::Len | Acc::IsEmpty | Acc::Estimate => continue,
        };
        st.insert(key.to_string(), val(x));
    }
    cm.sort_by_key(|c| c.0);
    sm.sort_by_key(|c| c.0);
    if !cm.is_empty() {
        // orders 0..=N, contiguous
        st.insert("cm".into(), Value::Array(cm.into_iter().map(|c| c.1).collect()));
    }
    if !sm.is_empty() {
        st.insert("sm".into(), Value::Array(sm.into_iter().map(|c| c.1).collect()));
    }
    json!({"op": "obs", "id": id, "len": t.len_u64(), "st": st})
}

fn add_event(id: usize, x: f64) -> Value {
    let (s, l, e) = dyadic(x);
    json!({"op": "add", "id": id, "m": [s, l], "e": e})
}

/// the data regimes: (name, generator, usable for envelope properties of order > 4?)
fn regimes(prop: &str) -> Vec<&'static str> {
    match prop {
        // any conditioning, the far ends of the exponent range
        "C17" => vec!["uniform", "offset1e15", "huge1e150", "denormal", "near-constant", "two-scales", "const0.1"],
        "C16" => vec!["const0.1", "const-neg", "const-big", "uniform"],
        _ => vec!["uniform", "offset1e9", "exp1e-20", "heavy1e20", "clusters", "near-constant", "ties", "const0.1", "sorted", "reversed"],
    }
}

fn gen(regime: &str, n: usize, rng: &mut Xoshiro256PlusPlus) -> Vec<f64> {
    let u = |rng: &mut Xoshiro256PlusPlus| rng.random::<f64>();
    let mut v: Vec<f64> = match regime {
        "uniform" | "sorted" | "reversed" => (0..n).map(|_| u(rng) * 100.0 - 50.0).collect(),
        "offset1e9" => (0..n).map(|_| 1.0e9 + u(rng) + u(rng) + u(rng)).collect(),
        "offset1e15" => (0..n).map(|_| 1.0e15 + u(rng) * 4.0).collect(),
        "exp1e-20" => (0..n).map(|_| -(1.0 - u(rng)).ln() * 1.0e-20).collect(),
        "heavy1e20" => (0..n).map(|_| 1.0e20 / (u(rng) + 0.01)).collect(),
        "clusters" => (0..n).map(|_| if u(rng) < 0.3 { -1000.0 + u(rng) } else { 2500.0 + 0.01 * u(rng) }).collect(),
        "near-constant" => (0..n).map(|_| 0.3 + 1.0e-11 * u(rng)).collect(),
        "ties" => (0..n).map(|_| [0.1, 0.3, 0.7, 1.1, -2.3][rng.random_range(0..5)]).collect(),
        "const0.1" => vec![0.1; n],
        "const-neg" => vec![-1.0e-17 / 3.0; n],
        "const-big" => vec![1.0e29 / 7.0; n],
        "huge1e150" => (0..n).map(|_| (u(rng) - 0.3) * 1.0e150).collect(),
        "denormal" => (0..n).map(|_| (u(rng) * 1000.0).floor() * 5e-324).collect(),
        "two-scales" => (0..n).map(|i| if i % 7 == 0 { 1.0e12 * u(rng) } else { u(rng) }).collect(),
        o => panic!("regime {o}"),
    };
    if regime == "sorted" {
        v.sort_by(|a, b| a.partial_cmp(b).unwrap());
    }
    if regime == "reversed" {
        v.sort_by(|a, b| b.partial_cmp(a).unwrap());
    }
    v
}

fn obs_points(n: usize) -> Vec<usize> {
    let mut p: Vec<usize> = (1..=6.min(n)).collect();
    let mut k = 9usize;
    while k < n {
        p.push(k);
        k = k * 3 / 2 + 1;
    }
    p.push(n);
    p
}

fn k_for<T: MomT>() -> usize {
    (T::ORDER + 1).max(2)
}

/// add-only streams (C01 C03 C04 C10 C16 C17)
fn record_streams<T: MomT>(out: &mut impl Write, prop: &str, n: usize, rng: &mut Xoshiro256PlusPlus, rep: &mut Report) {
    // the general macro carries power sums to order N + 1: shorter streams for the high orders
    let n = if T::ORDER > 6 { n / 4 } else if T::ORDER > 4 { n / 2 } else { n }.max(8);
    for regime in regimes(prop) {
        // the properties of the higher moments quantify over n * max|x|^N < 1e300
        if (T::ORDER > 4 && regime == "heavy1e20") || (T::ORDER > 2 && regime == "huge1e150") {
            continue;
        }
        let data = gen(regime, n, rng);
        writeln!(out, "{}", json!({"op": "restart", "K": k_for::<T>(), "ty": T::NAME, "regime": regime})).unwrap();
        writeln!(out, "{}", json!({"op": "new", "id": 1, "ord": T::ORDER})).unwrap();
        let mut t = if n % 2 == 0 { T::new() } else { T::default_() };
        writeln!(out, "{}", obs_event(1, &t)).unwrap();
        let pts = obs_points(data.len());
        let mut next = 0;
        for (i, &x) in data.iter().enumerate() {
            let ok = std::panic::catch_unwind(std::panic::AssertUnwindSafe(|| t.add(x))).is_ok();
            if !ok {
                writeln!(out, "{}", json!({"op": "panic", "in": "add", "id": 1})).unwrap();
                break;
            }
            writeln!(out, "{}", add_event(1, x)).unwrap();
            if next < pts.len() && pts[next] == i + 1 {
                writeln!(out, "{}", obs_event(1, &t)).unwrap();
                rep.evaluations += 1;
                next += 1;
            }
        }
        rep.behaviours += 1;
        rep.bump("traces", 1);
    }
}

/// long add-only streams of small integers for the general macro (C04): the power sums stay small, so
/// TLC follows orders up to 11 over thousands of observations; observed at a few lengths
fn record_long_int<T: MomT>(out: &mut impl Write, n: usize, rng: &mut Xoshiro256PlusPlus, rep: &mut Report) {
    for (regime, lo, hi) in [("ints -50..50", -50i64, 50i64), ("ints 0..9", 0, 9), ("ints 1000..1016", 1000, 1016)] {
        writeln!(out, "{}", json!({"op": "restart", "K": k_for::<T>(), "ty": T::NAME, "regime": regime, "mode": "long"})).unwrap();
        writeln!(out, "{}", json!({"op": "new", "id": 1, "ord": T::ORDER})).unwrap();
        let mut t = T::new();
        let pts = [16usize, 64, 256, 1024, n];
        for i in 0..n {
            let x = rng.random_range(lo..=hi) as f64;
            t.add(x);
            writeln!(out, "{}", add_event(1, x)).unwrap();
            if pts.contains(&(i + 1)) {
                writeln!(out, "{}", obs_event(1, &t)).unwrap();
                rep.evaluations += 1;
            }
        }
        rep.behaviours += 1;
        rep.bump("traces", 1);
    }
}

/// add / merge / clone / serde histories over six objects (C02 C10 C16 C17)
fn record_histories<T: MomT>(out: &mut impl Write, prop: &str, n: usize, rng: &mut Xoshiro256PlusPlus, rep: &mut Report) {
    let n = if T::ORDER > 6 { n / 4 } else if T::ORDER > 4 { n / 2 } else { n }.max(8);
    const IDS: usize = 6;
    for regime in regimes(prop) {
        if (T::ORDER > 4 && regime == "heavy1e20") || (T::ORDER > 2 && regime == "huge1e150") {
            continue;
        }
        if matches!(regime, "sorted" | "reversed") {
            continue;
        }
        let data = gen(regime, n, rng);
        let mut di = 0usize;
        writeln!(out, "{}", json!({"op": "restart", "K": k_for::<T>(), "ty": T::NAME, "regime": regime, "mode": "history"})).unwrap();
        let mut objs: Vec<T> = Vec::new();
        for id in 1..=IDS {
            objs.push(if id % 2 == 0 { T::new() } else { T::default_() });
            writeln!(out, "{}", json!({"op": "new", "id": id, "ord": T::ORDER})).unwrap();
        }
        let mut steps = 0usize;
        while di < data.len() {
            steps += 1;
            let r = rng.random_range(0..100);
            let a = rng.random_range(0..IDS);
            let mut b = rng.random_range(0..IDS);
            if b == a {
                b = (a + 1) % IDS;
            }
            let mut touched = a;
            let res = std::panic::catch_unwind(std::panic::AssertUnwindSafe(|| {
                if r < 55 {
                    // a run of adds into one object
                    let k = rng.random_range(1..=12usize).min(data.len() - di);
                    for _ in 0..k {
                        objs[a].add(data[di]);
                        writeln!(out, "{}", add_event(a + 1, data[di])).unwrap();
                        di += 1;
                    }
                } else if r < 70 {
                    // collect (fresh) or extend of up to 70 observations, by value or by reference, through
                    // the three iterator shapes of Ingest.tla: the meaning is the add loop
                    let k = rng.random_range(0..=70usize).min(data.len() - di);
                    let xs = &data[di..di + k];
                    di += k;
                    let by_ref = rng.random_range(0..2) == 1;
                    let shape = [Shape::Exact, Shape::Lazy, Shape::Resuming][rng.random_range(0..3)];
                    let fresh = rng.random_range(0..3) == 0;
                    if fresh {
                        objs[a] = T::collect_shaped(xs, by_ref, shape);
                    } else {
                        objs[a].extend_shaped(xs, by_ref, shape);
                    }
                    writeln!(out, "{}", batch_event(a + 1, fresh, T::ORDER, xs)).unwrap();
                } else if r < 84 {
                    let src = objs[b].clone();
                    objs[a].merge(&src);
                    writeln!(out, "{}", json!({"op": "merge", "dst": a + 1, "src": b + 1})).unwrap();
                } else if r < 90 {
                    if steps % 2 == 0 {
                        objs[a] = objs[b].clone();
                    } else {
                        let src = objs[b].clone();
                        objs[a].clone_from(&src);
                    }
                    writeln!(out, "{}", json!({"op": "clone", "dst": a + 1, "src": b + 1})).unwrap();
                } else if r < 94 {
                    objs[a] = T::from_json(&objs[a].to_json());
                    writeln!(out, "{}", json!({"op": "serde", "id": a + 1})).unwrap();
                } else if r < 97 {
                    objs[a] = T::new();
                    writeln!(out, "{}", json!({"op": "new", "id": a + 1, "ord": T::ORDER})).unwrap();
                } else {
                    touched = b;
                }
            }));
            if res.is_err() {
                writeln!(out, "{}", json!({"op": "panic", "in": "history step", "id": a + 1})).unwrap();
                break;
            }
            if steps % 3 == 0 || r >= 70 {
                writeln!(out, "{}", obs_event(touched + 1, &objs[touched])).unwrap();
                rep.evaluations += 1;
            }
        }
        // fold everything into one object and observe it
        for id in 2..=IDS {
            let src = objs[id - 1].clone();
            objs[0].merge(&src);
            writeln!(out, "{}", json!({"op": "merge", "dst": 1, "src": id})).unwrap();
            writeln!(out, "{}", obs_event(1, &objs[0])).unwrap();
            rep.evaluations += 1;
        }
        rep.behaviours += 1;
        rep.bump("traces", 1);
    }
}

fn batch_event(id: usize, fresh: bool, ord: usize, xs: &[f64]) -> Value {
    let logged: Vec<Value> = xs.iter().map(|&x| { let (s, l, e) = dyadic(x); json!({"m": [s, l], "e": e}) }).collect();
    json!({"op": "batch", "id": id, "fresh": fresh, "ord": ord, "xs": logged})
}

/// C19: the same data collected sequentially (object 1, a `batch` event) and from parallel iterators under
/// real pools, splitting limits and length-changing adaptors (`par` events: the same multiset, built
/// through rayon's fold / reduce), every result observed
fn record_parallel<T: MomT>(out: &mut impl Write, n: usize, rng: &mut Xoshiro256PlusPlus, rep: &mut Report) {
    let pools: Vec<rayon::ThreadPool> = [1usize, 2, 5, 16].iter().map(|&t| rayon::ThreadPoolBuilder::new().num_threads(t).build().unwrap()).collect();
    for regime in ["uniform", "offset1e9", "exp1e-20", "near-constant", "ties", "const0.1", "sorted"] {
        for len in [0usize, 1, 2, 3, 7, 64, n] {
            let data = gen(regime, len, rng);
            writeln!(out, "{}", json!({"op": "restart", "K": k_for::<T>(), "ty": T::NAME, "regime": regime, "mode": "parallel"})).unwrap();
            let seq = T::collect_val(&data);
            writeln!(out, "{}", batch_event(1, true, T::ORDER, &data)).unwrap();
            writeln!(out, "{}", obs_event(1, &seq)).unwrap();
            let mut id = 2usize;
            for (pi, pool) in pools.iter().enumerate() {
                let variants: Vec<(&str, Box<dyn Fn() -> T + Send + Sync>)> = vec![
                    ("value", Box::new(|| T::par_collect_val(&data))),
                    ("reference", Box::new(|| T::par_collect_ref(&data))),
                    ("max_len 1", Box::new(|| T::par_collect_limits(&data, 1, 1, false))),
                    ("max_len 3 by reference", Box::new(|| T::par_collect_limits(&data, 1, 3, true))),
                    ("filter adaptor", Box::new(|| T::par_collect_adaptor(&data, 2, 2, false))),
                ];
                for (vi, (name, f)) in variants.iter().enumerate() {
                    // every variant on the first and last pool, a rotating one on the others
                    if pi != 0 && pi != pools.len() - 1 && (vi + pi + len) % 5 != 0 {
                        continue;
                    }
                    match std::panic::catch_unwind(std::panic::AssertUnwindSafe(|| pool.install(|| f()))) {
                        Ok(t) => {
                            writeln!(out, "{}", json!({"op": "par", "dst": id, "src": 1, "how": name, "threads": pool.current_num_threads()})).unwrap();
                            writeln!(out, "{}", obs_event(id, &t)).unwrap();
                            rep.evaluations += 1;
                        }
                        Err(_) => {
                            writeln!(out, "{}", json!({"op": "panic", "in": "parallel collect", "how": name})).unwrap();
                        }
                    }
                    id += 1;
                }
            }
            rep.behaviours += 1;
            rep.bump("traces", 1);
        }
    }
}

pub fn record_moments(path: &str, prop: &str, seed: u64, n: usize, rep: &mut Report) {
    let mut rng = Xoshiro256PlusPlus::seed_from_u64(seed ^ 0x6d6f6d);
    let mut out = std::io::BufWriter::new(std::fs::File::create(path).unwrap());
    macro_rules! streams {
        ($($t:ty),*) => {{ $( record_streams::<$t>(&mut out, prop, n, &mut rng, rep); )* }};
    }
    macro_rules! histories {
        ($($t:ty),*) => {{ $( record_histories::<$t>(&mut out, prop, n, &mut rng, rep); )* }};
    }
    match prop {
        "C01" => streams!(average::Mean, average::Variance),
        "C03" => streams!(average::Skewness, average::Kurtosis),
        "C04" => {
            streams!(average::Moments4, m5::M5, m6::M6, m8::M8, m10::M10);
            let nl = (n * 25).max(4096);
            record_long_int::<m5::M5>(&mut out, nl, &mut rng, rep);
            record_long_int::<m8::M8>(&mut out, nl, &mut rng, rep);
            record_long_int::<m10::M10>(&mut out, nl, &mut rng, rep);
        }
        "C10" => {
            streams!(average::Variance, average::Moments4, m6::M6);
            histories!(average::Variance, average::Moments4);
        }
        "C19" => {
            record_parallel::<average::Mean>(&mut out, n, &mut rng, rep);
            record_parallel::<average::Variance>(&mut out, n, &mut rng, rep);
            record_parallel::<average::Skewness>(&mut out, n, &mut rng, rep);
            record_parallel::<average::Kurtosis>(&mut out, n, &mut rng, rep);
            record_parallel::<average::Moments4>(&mut out, n, &mut rng, rep);
            record_parallel::<m6::M6>(&mut out, n, &mut rng, rep);
        }
        "C02" => histories!(average::Mean, average::Variance, average::Skewness, average::Kurtosis, average::Moments4, m5::M5, m6::M6),
        "C16" => {
            streams!(average::Mean, average::Variance, average::Skewness, average::Kurtosis, average::Moments4, m6::M6);
        }
        "C17" => {
            streams!(average::Mean, average::Variance, average::Kurtosis, average::Moments4);
            histories!(average::Variance, average::Kurtosis, average::Moments4);
        }
        // self-test and anything else: one of each kind
        _ => {
            streams!(average::Variance, average::Moments4);
            histories!(average::Kurtosis);
        }
    }
    out.flush().unwrap();
    rep.sample(json!({"family": "moments-trace", "prop": prop, "n": n}));
}
