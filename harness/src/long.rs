//! Long streams (n up to 10^6), beyond what TLC's 32-bit integers can hold.
//!
//! The oracle is `SlotSpec::from_data`: the specification's accessor definitions evaluated with
//! i128 rationals on the actual data (never a recurrence).  It is cross-checked against the
//! TLA+ specification's own values on every behaviour TLC generates (`oracle_crosschecks`).
//! Data are count-vector shapes over the lattice, fed in several orders, single-pass and through
//! random chunkings / merge trees; constant streams for the C16 contract.

use crate::exact::*;
use crate::moments::*;
use crate::report::*;
use crate::types::*;
use rand::seq::SliceRandom;
use rand::{Rng, SeedableRng};
use rand_xoshiro::Xoshiro256PlusPlus;
use serde_json::{json, Value};

const ALPHABET: [i64; 5] = [-3, -1, 0, 2, 3];

fn shapes(n: usize, rng: &mut Xoshiro256PlusPlus) -> Vec<(&'static str, Vec<usize>)> {
    // counts per alphabet value, summing to n
    let mut v = Vec::new();
    let u = n / 5;
    v.push(("uniform", vec![u, u, u, u, n - 4 * u]));
    v.push(("two-point", vec![n / 2, 0, 0, 0, n - n / 2]));
    v.push(("two-point-unbalanced", vec![n - n / 10 - 1, 0, 0, 0, n / 10 + 1]));
    v.push(("single-outlier", vec![0, 0, n - 1, 0, 1]));
    v.push(("single-low-outlier", vec![1, 0, 0, n - 1, 0]));
    v.push(("skewed-right", vec![0, n / 2, n / 4, n / 8, n - n / 2 - n / 4 - n / 8]));
    v.push(("skewed-left", vec![n - n / 2 - n / 4 - n / 8, n / 8, n / 4, n / 2, 0]));
    v.push(("bimodal", vec![n * 2 / 5, n / 10, 0, n / 10, n - n * 2 / 5 - n / 5]));
    let mut r = vec![0usize; 5];
    for _ in 0..n {
        r[rng.random_range(0..5)] += 1;
    }
    v.push(("random", r));
    v
}

fn expand(counts: &[usize]) -> Vec<i64> {
    let mut d = Vec::new();
    for (i, &c) in counts.iter().enumerate() {
        d.extend(std::iter::repeat(ALPHABET[i]).take(c));
    }
    d
}

fn orders(data: &[i64], rng: &mut Xoshiro256PlusPlus) -> Vec<(&'static str, Vec<i64>)> {
    let mut asc = data.to_vec();
    asc.sort();
    let mut desc = asc.clone();
    desc.reverse();
    let mut sh = asc.clone();
    sh.shuffle(rng);
    // outliers last / first matter for one-pass algorithms
    let mut inter = Vec::with_capacity(asc.len());
    let (mut i, mut j) = (0usize, asc.len());
    while i < j {
        inter.push(asc[i]);
        i += 1;
        if i < j {
            j -= 1;
            inter.push(asc[j]);
        }
    }
    vec![("ascending", asc), ("descending", desc), ("shuffled", sh), ("alternating-extremes", inter)]
}

fn run_single<T: MomT>(xs_l: &[i64], spec: &SlotSpec, cx: &Ctx, e: &Embedding, want: &Want, rep: &mut Report, label: &Value) {
    if !want.types.iter().any(|t| t == T::NAME) {
        return;
    }
    if T::ORDER > spec.p() {
        return; // the exact evaluator carries this order only for shorter streams
    }
    rep.replays += 1;
    let built = std::panic::catch_unwind(|| {
        let mut t = T::new();
        for &v in xs_l {
            t.add(e.x(v));
        }
        t
    });
    match built {
        Ok(t) => check_final::<T>(&t, spec, cx, e, true, want, rep, label, 0, false),
        Err(_) => rep.violation(json!({"property": want.prop, "family": "long", "type": T::NAME, "embedding": e.name, "history": label,
            "accessor": "panic", "what": "add panicked", "signature": format!("{}|{}|panic", want.prop, T::NAME)})),
    }
}

fn run_merged<T: MomT>(xs_l: &[i64], spec: &SlotSpec, cx: &Ctx, e: &Embedding, want: &Want, rep: &mut Report, label: &Value, rng: &mut Xoshiro256PlusPlus) {
    if !want.types.iter().any(|t| t == T::NAME) {
        return;
    }
    if T::ORDER > spec.p() {
        return; // the exact evaluator carries this order only for shorter streams
    }
    rep.replays += 1;
    // random contiguous chunking (empty and one-element chunks included), random merge tree
    let k = rng.random_range(2..=8usize);
    let mut cuts: Vec<usize> = (0..k - 1).map(|_| rng.random_range(0..=xs_l.len())).collect();
    cuts.push(0);
    cuts.push(xs_l.len());
    cuts.sort();
    let mut parts: Vec<T> = cuts
        .windows(2)
        .map(|w| {
            let mut t = T::new();
            for &v in &xs_l[w[0]..w[1]] {
                t.add(e.x(v));
            }
            t
        })
        .collect();
    while parts.len() > 1 {
        let i = rng.random_range(0..parts.len() - 1);
        let right = parts.remove(i + 1);
        if rng.random_range(0..4) == 0 {
            // merge the left part into the right one (the multiset is the same)
            let left = std::mem::replace(&mut parts[i], right);
            parts[i].merge(&left);
        } else {
            parts[i].merge(&right);
        }
    }
    check_final::<T>(&parts[0], spec, cx, e, false, want, rep, label, 0, false);
}

fn two_blocks<T: MomT>(spec: &SlotSpec, cx: &Ctx, ka: usize, e: &Embedding, want: &Want, rep: &mut Report, label: &Value) {
    if !want.types.iter().any(|t| t == T::NAME) {
        return;
    }
    for reverse in [false, true] {
        rep.replays += 1;
        let mut a = T::new();
        let mut b = T::new();
        for &v in &spec.data[..ka] {
            a.add(e.x(v));
        }
        for &v in &spec.data[ka..] {
            b.add(e.x(v));
        }
        let merged = std::panic::catch_unwind(std::panic::AssertUnwindSafe(|| {
            if reverse {
                b.merge(&a);
                b
            } else {
                a.merge(&b);
                a
            }
        }));
        match merged {
            Ok(m) => check_final::<T>(&m, spec, cx, e, false, want, rep, label, 0, false),
            Err(_) => rep.violation(json!({"property": want.prop, "family": "long", "type": T::NAME, "embedding": e.name, "history": label,
                "accessor": "panic", "what": "merge panicked", "signature": format!("{}|{}|panic", want.prop, T::NAME)})),
        }
    }
}

pub fn direct_long(prop: &str, seed: u64, max_n: usize, types: Vec<String>, emb_names: Vec<String>, rep: &mut Report) {
    let mut rng = Xoshiro256PlusPlus::seed_from_u64(seed);
    let embs: Vec<Embedding> = emb_names.iter().map(|s| embedding(s)).collect();
    let mut ns = vec![10usize, 100, 1000];
    let mut k = 10_000;
    while k <= max_n {
        ns.push(k);
        k *= 10;
    }
    let merged = prop == "C02" || prop == "C17";
    // ---------------- C11: lengths add exactly, far beyond what adds alone can reach: doubling by
    // merging clones (2^k observations after k merges), then merging small estimators in.  The
    // oracle is integer addition (LenExact / MergeLaws of every family specification).
    if prop == "C11" {
        fn doubling<T: MomT>(rep: &mut Report) {
            let len_of = |t: &T| -> u64 { t.len_u64() };
            rep.replays += 1;
            let mut a = T::new();
            a.add(1.5);
            let mut exact: u64 = 1;
            let mut small = T::new();
            small.add(0.5);
            small.add(2.5);
            for k in 0..60 {
                let c = a.clone();
                a.merge(&c);
                exact *= 2;
                if k % 3 == 0 {
                    a.merge(&small);
                    exact += 2;
                    a.add(7.0);
                    exact += 1;
                }
                rep.evaluations += 1;
                let l = len_of(&a);
                if l != exact {
                    rep.violation(json!({"property": "C11", "family": "long", "type": T::NAME, "embedding": "E0",
                        "history": {"doubling_merges": k + 1, "expected_len": exact.to_string()}, "accessor": "len",
                        "what": format!("after {} doubling merges len() = {} but lengths must add exactly to {}", k + 1, l, exact),
                        "signature": format!("C11|{}|len-doubling", T::NAME)}));
                    return;
                }
            }
        }
        // ---- the empty estimator is an exact identity also where the stored sums sit on a mathematical
        // bound by a rounding error: two-valued samples of full-mantissa values (excess kurtosis -2,
        // sum_4 = sum_2^2 / n up to rounding), every length 2..40, merged with a fresh estimator both ways
        fn two_valued<T: MomT>(rep: &mut Report) {
            let bits = |t: &T| -> Vec<(String, Option<u64>)> {
                let mut v = Vec::new();
                t.observe(&mut v);
                v.into_iter().map(|(a, x)| (a.name(), x.map(|f| if f.is_nan() { u64::MAX } else { f.to_bits() }))).collect()
            };
            for &(a, b) in &[(0.1f64, 0.7f64), (0.3, 0.4), (0.1, 0.2), (1.1, -2.3), (1.0e9 + 0.1, 1.0e9 + 0.7), (1.0e-20 / 3.0, 2.0e-20 / 3.0)] {
                for n in 2..=40usize {
                    for pattern in 0..2 {
                        rep.replays += 1;
                        let mut t = T::new();
                        for i in 0..n {
                            // alternating, or a block of a followed by a block of b
                            let x = if pattern == 0 { if i % 2 == 0 { a } else { b } } else if i < n / 2 { a } else { b };
                            t.add(x);
                        }
                        let before = bits(&t);
                        let mut t1 = t.clone();
                        t1.merge(&T::new());
                        let mut t2 = T::default_();
                        t2.merge(&t);
                        rep.evaluations += 2;
                        for (which, got) in [("merging a fresh estimator into it", bits(&t1)), ("merging it into a fresh estimator", bits(&t2))] {
                            if let Some(k) = (0..before.len()).find(|&k| before[k] != got[k]) {
                                rep.violation(json!({"property": "C11", "family": "long", "type": T::NAME, "embedding": "two-valued full-mantissa sample",
                                    "history": {"values": [a, b], "n": n, "pattern": pattern}, "accessor": before[k].0,
                                    "what": format!("{} changed {}: {:?} -> {:?} (bit patterns)", which, before[k].0, before[k].1, got[k].1),
                                    "signature": format!("C11|{}|identity-two-valued", T::NAME)}));
                                return;
                            }
                        }
                    }
                }
            }
        }
        two_valued::<average::Mean>(rep);
        two_valued::<average::Variance>(rep);
        two_valued::<average::Skewness>(rep);
        two_valued::<average::Kurtosis>(rep);
        two_valued::<average::Moments4>(rep);
        two_valued::<m6::M6>(rep);
        rep.behaviours += 1;
        rep.nontrivial.insert(1);
        rep.nontrivial.insert(2);
        doubling::<average::Mean>(rep);
        doubling::<average::Variance>(rep);
        doubling::<average::Skewness>(rep);
        doubling::<average::Kurtosis>(rep);
        doubling::<average::Moments4>(rep);
        doubling::<m6::M6>(rep);
        rep.sample(json!({"doubling_history": "x = new+add; repeat 60: x.merge(&x.clone()); every third round also merge a 2-observation estimator and add one"}));
        return;
    }
    // ---------------- C16: constant streams, exact contract
    if prop == "C16" {
        for &len in &[1usize, 2, 3, 4, 5, 10, 100, 1000, 10_000] {
            if len > max_n {
                continue;
            }
            for &v in &ALPHABET {
                let data = vec![v; len];
                let spec = SlotSpec::from_data(data, 4);
                let cx = Ctx::new(&spec);
                for e in &embs {
                    let want = Want { prop: prop.into(), types: types.clone(), embeddings: vec![] };
                    let label = json!({"constant_stream_of": v, "length": len});
                    rep.behaviours += 1;
                    rep.nontrivial.insert(hash_str(&format!("{label}{}", e.name)));
                    run_single::<average::Mean>(&spec.data, &spec, &cx, e, &want, rep, &label);
                    run_single::<average::Variance>(&spec.data, &spec, &cx, e, &want, rep, &label);
                    run_single::<average::Skewness>(&spec.data, &spec, &cx, e, &want, rep, &label);
                    run_single::<average::Kurtosis>(&spec.data, &spec, &cx, e, &want, rep, &label);
                    run_single::<average::Moments4>(&spec.data, &spec, &cx, e, &want, rep, &label);
                    run_single::<m6::M6>(&spec.data, &spec, &cx, e, &want, rep, &label);
                    run_single::<m10::M10>(&spec.data, &spec, &cx, e, &want, rep, &label);
                    rep.sample(label);
                }
            }
        }
        return;
    }
    // ---------------- C02 / C17: two near-constant blocks merged exactly at the block boundary
    // (chunk means one lattice step apart, no scatter inside a chunk: under a one-ulp embedding the
    // rounded merged mean can land outside [mean_a, mean_b])
    if merged {
        for &(va, vb) in &[(-1i64, 0i64), (0, -1), (2, 3), (3, 2), (-3, 3)] {
            for ka in 1..=12usize {
                for kb in 1..=12usize {
                    let mut data = vec![va; ka];
                    data.extend(vec![vb; kb]);
                    let spec = SlotSpec::from_data(data, 4);
                    let cx = Ctx::new(&spec);
                    let label = json!({"two_blocks": [[va, ka], [vb, kb]], "merged_at_boundary": true});
                    rep.behaviours += 1;
                    rep.nontrivial.insert(hash_str(&label.to_string()));
                    let want = Want { prop: prop.into(), types: types.clone(), embeddings: vec![] };
                    for e in &embs {
                        two_blocks::<average::Mean>(&spec, &cx, ka, e, &want, rep, &label);
                        two_blocks::<average::Variance>(&spec, &cx, ka, e, &want, rep, &label);
                        two_blocks::<average::Skewness>(&spec, &cx, ka, e, &want, rep, &label);
                        two_blocks::<average::Kurtosis>(&spec, &cx, ka, e, &want, rep, &label);
                        two_blocks::<average::Moments4>(&spec, &cx, ka, e, &want, rep, &label);
                    }
                }
            }
        }
    }
    // ---------------- C02 / C17 / C19: very UNBALANCED merges, both directions: a part of 1..5
    // observations holding the extreme value of the sample against a part 10..10^4 times larger
    // (size-ratio dependent branches of a merge; the merged mean must stay inside the data range)
    if merged || prop == "C19" {
        // (vs, ks, constant): the large part is either a mix of -1,0,2 or constant at an extreme of
        // the sample (then any overshoot of the merged mean leaves the data range)
        for &(vs, ks, constant) in &[(3i64, 1usize, None), (-3, 1, None), (3, 2, None), (-3, 3, None), (3, 5, None),
                                     (0, 1, Some(3i64)), (2, 2, Some(3)), (0, 1, Some(-3)), (-1, 3, Some(-3)), (3, 1, Some(-3))] {
            for &nb in &[10usize, 50, 300, 1000, 3000, 40_000] {
                let mut data = vec![vs; ks];
                data.extend((0..nb).map(|i| constant.unwrap_or([-1i64, 0, 2, 0, -1, 2, 2][(i * 5 + i / 11) % 7])));
                let p = if nb <= 1000 { 6 } else { 4 };
                let spec = SlotSpec::from_data(data, p);
                let cx = Ctx::new(&spec);
                let label = json!({"unbalanced_parts": [[vs, ks], [constant.map(|c| format!("constant {c}")).unwrap_or("mix of -1,0,2".into()), nb]]});
                rep.behaviours += 1;
                rep.nontrivial.insert(hash_str(&label.to_string()));
                let want = Want { prop: prop.into(), types: types.clone(), embeddings: vec![] };
                for e in embs.iter().take(3) {
                    two_blocks::<average::Mean>(&spec, &cx, ks, e, &want, rep, &label);
                    two_blocks::<average::Variance>(&spec, &cx, ks, e, &want, rep, &label);
                    two_blocks::<average::Skewness>(&spec, &cx, ks, e, &want, rep, &label);
                    two_blocks::<average::Kurtosis>(&spec, &cx, ks, e, &want, rep, &label);
                    two_blocks::<average::Moments4>(&spec, &cx, ks, e, &want, rep, &label);
                    if p >= 6 {
                        two_blocks::<m6::M6>(&spec, &cx, ks, e, &want, rep, &label);
                    }
                }
            }
        }
    }
    // ---------------- C02 / C19: two LARGE halves (both operands beyond 2^16 observations: integer
    // count polynomials of degree 4 leave the u64 range there)
    if prop == "C02" || prop == "C19" {
        for &(na, nb) in &[(70_000usize, 70_000usize), (140_000, 40)] {
            let data: Vec<i64> = (0..na + nb).map(|i| ALPHABET[(i * 7 + i / 13) % 5]).collect();
            let spec = SlotSpec::from_data(data, 4);
            let cx = Ctx::new(&spec);
            let label = json!({"two_large_parts": [na, nb]});
            rep.behaviours += 1;
            rep.nontrivial.insert(hash_str(&label.to_string()));
            let want = Want { prop: prop.into(), types: types.clone(), embeddings: vec![] };
            for e in embs.iter().take(2) {
                two_blocks::<average::Variance>(&spec, &cx, na, e, &want, rep, &label);
                two_blocks::<average::Skewness>(&spec, &cx, na, e, &want, rep, &label);
                two_blocks::<average::Kurtosis>(&spec, &cx, na, e, &want, rep, &label);
                two_blocks::<average::Moments4>(&spec, &cx, na, e, &want, rep, &label);
            }
        }
    }
    if prop == "C19" {
        return; // for the parallel-collection property only the large-operand merges above
    }
    for &n in &ns {
        for (shape, counts) in shapes(n, &mut rng) {
            let base = expand(&counts);
            for (order, data) in orders(&base, &mut rng) {
                if n >= 100_000 && order == "alternating-extremes" {
                    continue;
                }
                let p = if n <= 100 { 10 } else if n <= 1000 { 6 } else { 4 };
                let spec = SlotSpec::from_data(data, p);
                let cx = Ctx::new(&spec);
                let label = json!({"n": n, "shape": shape, "counts_over_[-3,-1,0,2,3]": counts, "order": order, "seed": seed});
                rep.behaviours += 1;
                rep.nontrivial.insert(hash_str(&label.to_string()));
                rep.sample(label.clone());
                let want = Want { prop: prop.into(), types: types.clone(), embeddings: vec![] };
                for e in &embs {
                    if merged {
                        run_merged::<average::Mean>(&spec.data, &spec, &cx, e, &want, rep, &label, &mut rng);
                        run_merged::<average::Variance>(&spec.data, &spec, &cx, e, &want, rep, &label, &mut rng);
                        run_merged::<average::Skewness>(&spec.data, &spec, &cx, e, &want, rep, &label, &mut rng);
                        run_merged::<average::Kurtosis>(&spec.data, &spec, &cx, e, &want, rep, &label, &mut rng);
                        run_merged::<average::Moments4>(&spec.data, &spec, &cx, e, &want, rep, &label, &mut rng);
                        run_merged::<m6::M6>(&spec.data, &spec, &cx, e, &want, rep, &label, &mut rng);
                        run_merged::<m10::M10>(&spec.data, &spec, &cx, e, &want, rep, &label, &mut rng);
                    }
                    if prop != "C02" {
                        run_single::<average::Mean>(&spec.data, &spec, &cx, e, &want, rep, &label);
                        run_single::<average::Variance>(&spec.data, &spec, &cx, e, &want, rep, &label);
                        run_single::<average::Skewness>(&spec.data, &spec, &cx, e, &want, rep, &label);
                        run_single::<average::Kurtosis>(&spec.data, &spec, &cx, e, &want, rep, &label);
                        run_single::<average::Moments4>(&spec.data, &spec, &cx, e, &want, rep, &label);
                        run_single::<m6::M6>(&spec.data, &spec, &cx, e, &want, rep, &label);
                        run_single::<m10::M10>(&spec.data, &spec, &cx, e, &want, rep, &label);
                    }
                }
            }
        }
    }
}

#[allow(dead_code)]
fn unused(_: Value) {}
