//! Implementation -> specification for the pair estimators with ARBITRARY f64 pairs:
//! `record --family pairs` drives the real Covariance / WeightedMeanWithError / WeightedMean through
//! add, collect, extend (by value / by reference, three iterator shapes), merge, clone and serde
//! histories and logs every number as the exact dyadic rational it is; Trace_Pairs.tla recomputes
//! the exact statistics in unbounded arithmetic inside TLC and accepts or rejects.

use crate::pairs::PairT;
use crate::report::*;
use crate::tmoments::dyadic;
use crate::types::Shape;
use rand::{Rng, SeedableRng};
use rand_xoshiro::Xoshiro256PlusPlus;
use serde_json::{json, Value};
use std::io::Write;

fn dy(x: f64) -> Value {
    let (s, l, e) = dyadic(x);
    json!({"m": [s, l], "e": e})
}

fn val(x: Option<f64>) -> Value {
    match x {
        None => json!({"c": "panic"}),
        Some(v) if v.is_nan() => json!({"c": "nan"}),
        Some(v) if v == f64::INFINITY => json!({"c": "pinf"}),
        Some(v) if v == f64::NEG_INFINITY => json!({"c": "ninf"}),
        Some(v) => {
            let (s, l, e) = dyadic(v);
            json!({"c": "fin", "m": [s, l], "e": e})
        }
    }
}

fn ty_of<T: PairT>() -> &'static str {
    match T::NAME {
        "Covariance" => "cov",
        "WeightedMeanWithError" => "wme",
        _ => "wm",
    }
}

fn obs_event<T: PairT>(id: usize, t: &T) -> Value {
    let mut v = Vec::new();
    t.observe(&mut v);
    let mut st = serde_json::Map::new();
    let mut len: Option<f64> = None;
    for (name, x) in v {
        let key = match name {
            "len" => {
                len = x;
                continue;
            }
            "is_empty" | "w.is_empty" => continue,
            "mean_x" => "mean_x",
            "mean_y" => "mean_y",
            "population_variance_x" => "pvar_x",
            "population_variance_y" => "pvar_y",
            "sample_variance_x" => "svar_x",
            "sample_variance_y" => "svar_y",
            "population_covariance" => "pcov",
            "sample_covariance" => "scov",
            "pearson" => "pearson",
            "sum_weights" => "sw",
            "sum_weights_sq" => "sw2",
            "weighted_mean" => "wmean",
            "unweighted_mean" => "umean",
            "effective_len" => "efflen",
            "population_variance" => "pvar",
            "sample_variance" => "svar",
            "variance_of_weighted_mean" => "vowm",
            "error" => "err",
            o => panic!("accessor {o}"),
        };
        st.insert(key.to_string(), val(x));
    }
    match len {
        Some(l) => json!({"op": "obs", "id": id, "len": l as u64, "st": st}),
        None => json!({"op": "obs", "id": id, "st": st}),
    }
}

fn regimes(prop: &str, weighted: bool) -> Vec<&'static str> {
    match (prop, weighted) {
        ("C17", _) => vec!["uniform", "offset1e15", "huge1e150", "near-constant", "const"],
        ("C16", _) => vec!["const", "const-b", "uniform"],
        (_, true) => vec!["uniform", "offset1e9", "tiny", "big", "near-constant", "const", "ties", "near-equal-w", "equal-w"],
        _ => vec!["uniform", "offset1e9", "both-offset", "tiny", "big", "collinear", "anticollinear", "near-constant", "const", "ties", "weak-corr"],
    }
}

/// one pair; for the weighted types b is a weight in {0} U [1e-6, 1e6]
fn gen(regime: &str, weighted: bool, i: usize, rng: &mut Xoshiro256PlusPlus) -> (f64, f64) {
    let mut u = || rng.random::<f64>();
    let a = match regime {
        "uniform" | "collinear" | "anticollinear" | "near-equal-w" | "equal-w" => u() * 100.0 - 50.0,
        // a design in which x is exactly uncorrelated with x^2 after every second pair: +-v_j in turn
        "weak-corr" => (if i % 2 == 0 { 1.0 } else { -1.0 }) * (((i / 2) % 7) as f64 + 1.0) * 0.75,
        "offset1e9" | "both-offset" => 1.0e9 + u() + u() + u(),
        "offset1e15" => 1.0e15 + u() * 4.0,
        "tiny" => -(1.0 - u()).ln() * 1.0e-20,
        "big" => 1.0e20 / (u() + 0.01),
        "near-constant" => 0.3 + 1.0e-11 * u(),
        "const" | "const-b" => 0.1,
        "ties" => [0.1, 0.3, 0.7, 1.1, -2.3][(u() * 5.0) as usize % 5],
        "huge1e150" => (u() - 0.3) * 1.0e150,
        o => panic!("regime {o}"),
    };
    let b = if weighted && regime == "near-equal-w" {
        // all positive, equal to within 1e-5: the effective sample size is just below len()
        1.0 + ((u() * 17.0).floor() - 8.0) * 2f64.powi(-20)
    } else if weighted && regime == "equal-w" {
        0.1
    } else if weighted {
        let k = (u() * 10.0) as usize;
        match k {
            0 | 1 => 0.0,
            2 => 1.0e-6 * (1.0 + u()),
            3 => 4.0e5 * (1.0 + u()),
            _ => if regime == "const-b" { 0.7 } else { 0.01 + u() * 3.0 },
        }
    } else {
        match regime {
            "collinear" => 3.0 * a - 7.0 + 0.0 * i as f64,
            // ... so that the correlation of x with y = x^2 + x * 2^-24 is about 1e-7: small, not zero
            "weak-corr" => a * a + a * 2f64.powi(-24),
            "anticollinear" => -0.5 * a + 2.0,
            "both-offset" => -3.0e7 + u() * 10.0,
            "const-b" => 0.7,
            "huge1e150" => u() * 1.0e-3,
            _ => 0.4 * a + (u() - 0.5) * (a.abs() + 1.0e-30),
        }
    };
    (a, b)
}

fn record_type<T: PairT>(out: &mut impl Write, prop: &str, n: usize, rng: &mut Xoshiro256PlusPlus, rep: &mut Report) {
    const IDS: usize = 5;
    let weighted = T::NAME != "Covariance";
    for regime in regimes(prop, weighted) {
        writeln!(out, "{}", json!({"op": "restart", "ty": ty_of::<T>(), "regime": regime})).unwrap();
        let mut objs: Vec<T> = Vec::new();
        for id in 1..=IDS {
            objs.push(if id % 2 == 0 { T::new() } else { T::default_() });
            writeln!(out, "{}", json!({"op": "new", "id": id, "ty": ty_of::<T>()})).unwrap();
        }
        // object 1 is a pure add stream observed after 0, 1, 2, 3, 4 and then more and more pairs
        writeln!(out, "{}", obs_event(1, &objs[0])).unwrap();
        let mut count = 0usize;
        let mut c0 = 0usize;
        let mut steps = 0usize;
        while count < n {
            steps += 1;
            let r = rng.random_range(0..100);
            let a = if r < 35 { 0 } else { rng.random_range(1..IDS) };
            let mut b = rng.random_range(1..IDS);
            if b == a {
                b = 1 + (a % (IDS - 1));
            }
            let ok = std::panic::catch_unwind(std::panic::AssertUnwindSafe(|| {
                if r < 35 {
                    let p = gen(regime, weighted, c0, rng);
                    c0 += 1;
                    objs[0].add(p.0, p.1);
                    count += 1;
                    writeln!(out, "{}", json!({"op": "add", "id": 1, "a": dy(p.0), "b": dy(p.1)})).unwrap();
                } else if r < 55 {
                    let k = rng.random_range(1..=9usize);
                    for _ in 0..k {
                        let p = gen(regime, weighted, count, rng);
                        objs[a].add(p.0, p.1);
                        count += 1;
                        writeln!(out, "{}", json!({"op": "add", "id": a + 1, "a": dy(p.0), "b": dy(p.1)})).unwrap();
                    }
                } else if r < 75 {
                    // collect / extend: by value or reference, three iterator shapes
                    let k = rng.random_range(0..=8usize);
                    let xs: Vec<(f64, f64)> = (0..k).map(|j| gen(regime, weighted, count + j, rng)).collect();
                    count += k;
                    let by_ref = rng.random_range(0..2) == 1;
                    let shape = [Shape::Exact, Shape::Lazy, Shape::Resuming][rng.random_range(0..3)];
                    let fresh = rng.random_range(0..3) == 0;
                    if fresh {
                        objs[a] = T::collect_shaped(&xs, by_ref, shape);
                    } else {
                        objs[a].extend_shaped(&xs, by_ref, shape);
                    }
                    let logged: Vec<Value> = xs.iter().map(|p| json!([dy(p.0), dy(p.1)])).collect();
                    writeln!(out, "{}", json!({"op": "batch", "id": a + 1, "fresh": fresh, "ty": ty_of::<T>(), "xs": logged})).unwrap();
                } else if r < 87 {
                    if a != 0 {
                        let src = objs[b].clone();
                        objs[a].merge(&src);
                        writeln!(out, "{}", json!({"op": "merge", "dst": a + 1, "src": b + 1})).unwrap();
                    }
                } else if r < 92 {
                    if a != 0 {
                        if steps % 2 == 0 {
                            objs[a] = objs[b].clone();
                        } else {
                            let src = objs[b].clone();
                            objs[a].clone_from(&src);
                        }
                        writeln!(out, "{}", json!({"op": "clone", "dst": a + 1, "src": b + 1})).unwrap();
                    }
                } else if r < 96 {
                    objs[a] = T::from_json(&objs[a].to_json());
                    writeln!(out, "{}", json!({"op": "serde", "id": a + 1})).unwrap();
                } else if a != 0 {
                    objs[a] = T::new();
                    writeln!(out, "{}", json!({"op": "new", "id": a + 1, "ty": ty_of::<T>()})).unwrap();
                }
            }));
            if ok.is_err() {
                writeln!(out, "{}", json!({"op": "panic", "id": a + 1})).unwrap();
                break;
            }
            writeln!(out, "{}", obs_event(a + 1, &objs[a])).unwrap();
            rep.evaluations += 1;
        }
        // everything merged into one object
        for id in 3..=IDS {
            let src = objs[id - 1].clone();
            objs[1].merge(&src);
            writeln!(out, "{}", json!({"op": "merge", "dst": 2, "src": id})).unwrap();
            writeln!(out, "{}", obs_event(2, &objs[1])).unwrap();
        }
        rep.behaviours += 1;
        rep.bump("traces", 1);
    }
}

pub fn record_pairs(path: &str, prop: &str, seed: u64, n: usize, rep: &mut Report) {
    let mut rng = Xoshiro256PlusPlus::seed_from_u64(seed ^ 0x7061);
    let mut out = std::io::BufWriter::new(std::fs::File::create(path).unwrap());
    if prop != "C09" {
        record_type::<average::WeightedMeanWithError>(&mut out, prop, n, &mut rng, rep);
        record_type::<average::WeightedMean>(&mut out, prop, n, &mut rng, rep);
    }
    if prop != "C08" {
        record_type::<average::Covariance>(&mut out, prop, n, &mut rng, rep);
    }
    out.flush().unwrap();
    rep.sample(json!({"family": "pairs-trace", "prop": prop, "n": n}));
}
