//! The concrete estimator types under test, behind one small trait per family.
//!
//! Everything goes through the public API of `average` (plus serde, which the crate documents
//! as its public serialised form).  `define_moments!` / `define_histogram!` are instantiated
//! here, in separate modules, for the orders / sizes the properties quantify over.

#![allow(dead_code)]

use average::{Estimate, Merge};
use std::panic::{catch_unwind, AssertUnwindSafe};

pub mod m4 {
    average::define_moments!(M4, 4);
}
pub mod m5 {
    average::define_moments!(M5, 5);
}
pub mod m6 {
    average::define_moments!(M6, 6);
}
pub mod m8 {
    average::define_moments!(M8, 8);
}
pub mod m10 {
    average::define_moments!(M10, 10);
}

/// Accessor identifiers of the moment family.
#[derive(Clone, Copy, Debug, PartialEq, Eq, Hash)]
pub enum Acc {
    Len,
    IsEmpty,
    Mean,
    PVar,
    SVar,
    VoM,
    Err,
    Skew,
    Kurt,
    Cm(u8),
    Sm(u8),
    SSk,
    SKu,
    Estimate,
}

impl Acc {
    pub fn name(&self) -> String {
        match self {
            Acc::Len => "len".into(),
            Acc::IsEmpty => "is_empty".into(),
            Acc::Mean => "mean".into(),
            Acc::PVar => "population_variance".into(),
            Acc::SVar => "sample_variance".into(),
            Acc::VoM => "variance_of_mean".into(),
            Acc::Err => "error".into(),
            Acc::Skew => "skewness".into(),
            Acc::Kurt => "kurtosis".into(),
            Acc::Cm(p) => format!("central_moment({p})"),
            Acc::Sm(p) => format!("standardized_moment({p})"),
            Acc::SSk => "sample_skewness".into(),
            Acc::SKu => "sample_excess_kurtosis".into(),
            Acc::Estimate => "estimate".into(),
        }
    }
}

/// One observation: `None` means the accessor panicked.
pub type Obs = (Acc, Option<f64>);

pub fn guarded<F: FnOnce() -> f64>(f: F) -> Option<f64> {
    catch_unwind(AssertUnwindSafe(f)).ok()
}

/// Which accessor `Estimate::estimate` must equal bit for bit (C20).
#[derive(Clone, Copy, Debug, PartialEq, Eq)]
pub enum Headline {
    None,
    Is(Acc),
}

/// An iterator that is not fused: it yields `v[..stop_at]`, then `None` once, and would yield the
/// rest of `v` if polled again.  A `for` loop (and therefore the add loop that is the meaning of
/// collect / extend) sees exactly `v[..stop_at]`.
pub struct Resuming<'a, T> {
    v: &'a [T],
    pos: usize,
    stop_at: usize,
    stopped: bool,
}

impl<'a, T> Resuming<'a, T> {
    pub fn new(v: &'a [T], stop_at: usize) -> Self {
        Resuming { v, pos: 0, stop_at, stopped: false }
    }
}

impl<'a, T> Iterator for Resuming<'a, T> {
    type Item = &'a T;
    fn next(&mut self) -> Option<&'a T> {
        if self.pos == self.stop_at && !self.stopped {
            self.stopped = true;
            return None;
        }
        let x = self.v.get(self.pos)?;
        self.pos += 1;
        Some(x)
    }
}

/// `v` followed by two values a conforming consumer never sees
pub fn with_poison(v: &[f64]) -> Vec<f64> {
    let mut w = v.to_vec();
    w.extend([12345.0, -999.0]);
    w
}

/// The iterator shapes of Ingest.tla
#[derive(Clone, Copy, Debug, PartialEq, Eq)]
pub enum Shape {
    /// knows its length
    Exact,
    /// size_hint lower bound 0
    Lazy,
    /// not fused: would yield more after its first None
    Resuming,
}

impl Shape {
    pub fn parse(s: &str) -> Shape {
        match s {
            "exact" => Shape::Exact,
            "lazy" => Shape::Lazy,
            "resuming" => Shape::Resuming,
            o => panic!("iterator shape {o}"),
        }
    }
}

pub trait MomT: Clone + Send + 'static {
    const NAME: &'static str;
    /// highest central moment the type reports
    const ORDER: usize;
    /// true for define_moments! types
    const GENERIC: bool;
    const HEADLINE: Headline;
    fn new() -> Self;
    fn default_() -> Self;
    fn add(&mut self, x: f64);
    fn merge(&mut self, o: &Self);
    fn observe(&self, out: &mut Vec<Obs>);
    /// len() as the integer it is (the f64 in `observe` is exact only below 2^53)
    fn len_u64(&self) -> u64;
    fn to_json(&self) -> String;
    fn from_json(s: &str) -> Self;
    /// round trip through the positional format (posfmt.rs)
    fn roundtrip_pos(&self) -> Result<Self, String>;
    fn debug(&self) -> String;
    fn collect_val(v: &[f64]) -> Self;
    fn collect_ref(v: &[f64]) -> Self;
    fn extend_val(&mut self, v: &[f64]);
    fn extend_ref(&mut self, v: &[f64]);
    /// the same through an iterator adaptor that does not know its length
    fn collect_val_lazy(v: &[f64]) -> Self;
    fn extend_val_lazy(&mut self, v: &[f64]);
    /// the same through an iterator that is not fused (`Resuming`)
    fn collect_resuming(v: &[f64], by_ref: bool) -> Self;
    fn extend_resuming(&mut self, v: &[f64], by_ref: bool);
    /// collect / extend through an iterator of the given shape (Ingest.tla), by value or by reference
    fn collect_shaped(v: &[f64], by_ref: bool, shape: Shape) -> Self {
        match (shape, by_ref) {
            (Shape::Exact, false) => Self::collect_val(v),
            (Shape::Exact, true) => Self::collect_ref(v),
            (Shape::Lazy, false) => Self::collect_val_lazy(v),
            (Shape::Lazy, true) => Self::collect_ref_lazy(v),
            (Shape::Resuming, r) => Self::collect_resuming(v, r),
        }
    }
    fn extend_shaped(&mut self, v: &[f64], by_ref: bool, shape: Shape) {
        match (shape, by_ref) {
            (Shape::Exact, false) => self.extend_val(v),
            (Shape::Exact, true) => self.extend_ref(v),
            (Shape::Lazy, false) => self.extend_val_lazy(v),
            (Shape::Lazy, true) => self.extend_ref_lazy(v),
            (Shape::Resuming, r) => self.extend_resuming(v, r),
        }
    }
    fn collect_ref_lazy(v: &[f64]) -> Self;
    fn extend_ref_lazy(&mut self, v: &[f64]);
    fn par_collect_val(v: &[f64]) -> Self;
    fn par_collect_ref(v: &[f64]) -> Self;
    /// parallel collect with explicit splitting limits (forces many small leaves)
    fn par_collect_limits(v: &[f64], min_len: usize, max_len: usize, by_ref: bool) -> Self;
    /// parallel collect through a length-changing adaptor: the input is padded with NaN markers
    /// (layout 0: all on the right, 1: all on the left, 2: four after every item) which a `filter`
    /// removes again, so whole leaves of the fold see no item at all; layout 3 chains an empty source
    fn par_collect_adaptor(v: &[f64], layout: usize, max_len: usize, by_ref: bool) -> Self;
}

macro_rules! common_impl {
    ($t:ty) => {
        fn new() -> Self {
            <$t>::new()
        }
        fn default_() -> Self {
            <$t as Default>::default()
        }
        fn len_u64(&self) -> u64 {
            <$t>::len(self)
        }
        fn merge(&mut self, o: &Self) {
            Merge::merge(self, o)
        }
        fn to_json(&self) -> String {
            serde_json::to_string(self).unwrap()
        }
        fn from_json(s: &str) -> Self {
            serde_json::from_str(s).unwrap()
        }
        fn roundtrip_pos(&self) -> Result<Self, String> {
            crate::posfmt::roundtrip(self)
        }
        fn debug(&self) -> String {
            format!("{:?}", self)
        }
        fn collect_val(v: &[f64]) -> Self {
            v.iter().copied().collect()
        }
        fn collect_ref(v: &[f64]) -> Self {
            v.iter().collect()
        }
        fn extend_val(&mut self, v: &[f64]) {
            Extend::extend(self, v.iter().copied())
        }
        fn extend_ref(&mut self, v: &[f64]) {
            Extend::extend(self, v.iter())
        }
        fn collect_val_lazy(v: &[f64]) -> Self {
            v.iter().copied().filter(|x| !x.is_nan() || x.is_nan()).collect()
        }
        fn extend_val_lazy(&mut self, v: &[f64]) {
            Extend::extend(self, v.iter().copied().filter(|x| !x.is_nan() || x.is_nan()))
        }
        fn collect_ref_lazy(v: &[f64]) -> Self {
            v.iter().filter(|x| !x.is_nan() || x.is_nan()).collect()
        }
        fn extend_ref_lazy(&mut self, v: &[f64]) {
            Extend::extend(self, v.iter().filter(|x| !x.is_nan() || x.is_nan()))
        }
        fn collect_resuming(v: &[f64], by_ref: bool) -> Self {
            let w = with_poison(v);
            if by_ref {
                Resuming::new(&w, v.len()).collect()
            } else {
                Resuming::new(&w, v.len()).copied().collect()
            }
        }
        fn extend_resuming(&mut self, v: &[f64], by_ref: bool) {
            let w = with_poison(v);
            if by_ref {
                Extend::extend(self, Resuming::new(&w, v.len()))
            } else {
                Extend::extend(self, Resuming::new(&w, v.len()).copied())
            }
        }
        fn par_collect_val(v: &[f64]) -> Self {
            use rayon::prelude::*;
            v.to_vec().into_par_iter().collect()
        }
        fn par_collect_ref(v: &[f64]) -> Self {
            use rayon::prelude::*;
            v.par_iter().collect()
        }
        fn par_collect_limits(v: &[f64], min_len: usize, max_len: usize, by_ref: bool) -> Self {
            use rayon::prelude::*;
            if by_ref {
                v.par_iter().with_min_len(min_len).with_max_len(max_len).collect()
            } else {
                v.to_vec().into_par_iter().with_min_len(min_len).with_max_len(max_len).collect()
            }
        }
        fn par_collect_adaptor(v: &[f64], layout: usize, max_len: usize, by_ref: bool) -> Self {
            use rayon::prelude::*;
            let padded = padded_input(v, layout);
            let empty: Vec<f64> = Vec::new();
            match (layout, by_ref) {
                (3, true) => v.par_iter().with_max_len(max_len).chain(empty.par_iter()).collect(),
                (3, false) => v.to_vec().into_par_iter().with_max_len(max_len).chain(empty.into_par_iter()).collect(),
                (_, true) => padded.par_iter().with_max_len(max_len).filter(|x| !x.is_nan()).collect(),
                (_, false) => padded.into_par_iter().with_max_len(max_len).filter(|x| !x.is_nan()).collect(),
            }
        }
    };
}

pub fn padded_input(v: &[f64], layout: usize) -> Vec<f64> {
    let pad = v.len().max(4);
    match layout {
        0 => v.iter().copied().chain(std::iter::repeat(f64::NAN).take(pad)).collect(),
        1 => std::iter::repeat(f64::NAN).take(pad).chain(v.iter().copied()).collect(),
        _ => v.iter().flat_map(|&x| [x, f64::NAN, f64::NAN, f64::NAN, f64::NAN]).collect(),
    }
}

impl MomT for average::Mean {
    const NAME: &'static str = "Mean";
    const ORDER: usize = 1;
    const GENERIC: bool = false;
    const HEADLINE: Headline = Headline::Is(Acc::Mean);
    common_impl!(average::Mean);
    fn add(&mut self, x: f64) {
        Estimate::add(self, x)
    }
    fn observe(&self, out: &mut Vec<Obs>) {
        out.push((Acc::Len, guarded(|| self.len() as f64)));
        out.push((Acc::IsEmpty, guarded(|| self.is_empty() as u8 as f64)));
        out.push((Acc::Mean, guarded(|| self.mean())));
        out.push((Acc::Estimate, guarded(|| self.estimate())));
    }
}

impl MomT for average::Variance {
    const NAME: &'static str = "Variance";
    const ORDER: usize = 2;
    const GENERIC: bool = false;
    const HEADLINE: Headline = Headline::Is(Acc::PVar);
    common_impl!(average::Variance);
    fn add(&mut self, x: f64) {
        Estimate::add(self, x)
    }
    fn observe(&self, out: &mut Vec<Obs>) {
        out.push((Acc::Len, guarded(|| self.len() as f64)));
        out.push((Acc::IsEmpty, guarded(|| self.is_empty() as u8 as f64)));
        out.push((Acc::Mean, guarded(|| self.mean())));
        out.push((Acc::PVar, guarded(|| self.population_variance())));
        out.push((Acc::SVar, guarded(|| self.sample_variance())));
        out.push((Acc::VoM, guarded(|| self.variance_of_mean())));
        out.push((Acc::Err, guarded(|| self.error())));
        out.push((Acc::Estimate, guarded(|| self.estimate())));
    }
}

impl MomT for average::Skewness {
    const NAME: &'static str = "Skewness";
    const ORDER: usize = 3;
    const GENERIC: bool = false;
    const HEADLINE: Headline = Headline::Is(Acc::Skew);
    common_impl!(average::Skewness);
    fn add(&mut self, x: f64) {
        Estimate::add(self, x)
    }
    fn observe(&self, out: &mut Vec<Obs>) {
        out.push((Acc::Len, guarded(|| self.len() as f64)));
        out.push((Acc::IsEmpty, guarded(|| self.is_empty() as u8 as f64)));
        out.push((Acc::Mean, guarded(|| self.mean())));
        out.push((Acc::PVar, guarded(|| self.population_variance())));
        out.push((Acc::SVar, guarded(|| self.sample_variance())));
        out.push((Acc::Err, guarded(|| self.error_mean())));
        out.push((Acc::Skew, guarded(|| self.skewness())));
        out.push((Acc::Estimate, guarded(|| self.estimate())));
    }
}

impl MomT for average::Kurtosis {
    const NAME: &'static str = "Kurtosis";
    const ORDER: usize = 4;
    const GENERIC: bool = false;
    const HEADLINE: Headline = Headline::Is(Acc::Kurt);
    common_impl!(average::Kurtosis);
    fn add(&mut self, x: f64) {
        Estimate::add(self, x)
    }
    fn observe(&self, out: &mut Vec<Obs>) {
        out.push((Acc::Len, guarded(|| self.len() as f64)));
        out.push((Acc::IsEmpty, guarded(|| self.is_empty() as u8 as f64)));
        out.push((Acc::Mean, guarded(|| self.mean())));
        out.push((Acc::PVar, guarded(|| self.population_variance())));
        out.push((Acc::SVar, guarded(|| self.sample_variance())));
        out.push((Acc::Err, guarded(|| self.error_mean())));
        out.push((Acc::Skew, guarded(|| self.skewness())));
        out.push((Acc::Kurt, guarded(|| self.kurtosis())));
        out.push((Acc::Estimate, guarded(|| self.estimate())));
    }
}

macro_rules! generic_impl {
    ($t:ty, $name:expr, $order:expr) => {
        impl MomT for $t {
            const NAME: &'static str = $name;
            const ORDER: usize = $order;
            const GENERIC: bool = true;
            const HEADLINE: Headline = Headline::None;
            common_impl!($t);
            fn add(&mut self, x: f64) {
                <$t>::add(self, x)
            }
            fn observe(&self, out: &mut Vec<Obs>) {
                out.push((Acc::Len, guarded(|| self.len() as f64)));
                out.push((Acc::IsEmpty, guarded(|| self.is_empty() as u8 as f64)));
                out.push((Acc::Mean, guarded(|| self.mean())));
                out.push((Acc::SVar, guarded(|| self.sample_variance())));
                out.push((Acc::SSk, guarded(|| self.sample_skewness())));
                out.push((Acc::SKu, guarded(|| self.sample_excess_kurtosis())));
                for p in 0..=$order {
                    out.push((Acc::Cm(p as u8), guarded(|| self.central_moment(p))));
                }
                for p in 0..=$order {
                    out.push((Acc::Sm(p as u8), guarded(|| self.standardized_moment(p))));
                }
            }
        }
    };
}

generic_impl!(average::Moments4, "Moments4", 4);
generic_impl!(m4::M4, "M4", 4);
generic_impl!(m5::M5, "M5", 5);
generic_impl!(m6::M6, "M6", 6);
generic_impl!(m8::M8, "M8", 8);
generic_impl!(m10::M10, "M10", 10);
