//! Spec -> implementation replay for the pair estimators: WeightedMean, WeightedMeanWithError
//! (Gen_Weighted) and Covariance (Gen_Covariance).

use crate::exact::*;
use crate::report::*;
use crate::types::guarded;
use average::Merge;
use serde_json::{json, Value};
use std::collections::HashMap;

pub type PObs = (&'static str, Option<f64>);

pub trait PairT: Clone + Send + 'static {
    const NAME: &'static str;
    fn new() -> Self;
    fn default_() -> Self;
    fn add(&mut self, a: f64, b: f64);
    fn merge(&mut self, o: &Self);
    fn observe(&self, out: &mut Vec<PObs>);
    fn to_json(&self) -> String;
    fn from_json(s: &str) -> Self;
    fn roundtrip_pos(&self) -> Result<Self, String>;
    fn collect_val(v: &[(f64, f64)]) -> Self;
    fn collect_ref(v: &[(f64, f64)]) -> Self;
    fn extend_val(&mut self, v: &[(f64, f64)]);
    fn extend_ref(&mut self, v: &[(f64, f64)]);
    /// collect / extend through an iterator of the given shape (Ingest.tla)
    fn collect_shaped(v: &[(f64, f64)], by_ref: bool, shape: crate::types::Shape) -> Self;
    fn extend_shaped(&mut self, v: &[(f64, f64)], by_ref: bool, shape: crate::types::Shape);
}

macro_rules! pair_common {
    ($t:ty) => {
        fn new() -> Self {
            <$t>::new()
        }
        fn default_() -> Self {
            <$t as Default>::default()
        }
        fn add(&mut self, a: f64, b: f64) {
            <$t>::add(self, a, b)
        }
        fn merge(&mut self, o: &Self) {
            Merge::merge(self, o)
        }
        fn to_json(&self) -> String {
            serde_json::to_string(self).unwrap()
        }
        fn from_json(s: &str) -> Self {
            serde_json::from_str(s).unwrap()
        }
        fn roundtrip_pos(&self) -> Result<Self, String> {
            crate::posfmt::roundtrip(self)
        }
        fn collect_val(v: &[(f64, f64)]) -> Self {
            v.iter().copied().collect()
        }
        fn collect_ref(v: &[(f64, f64)]) -> Self {
            v.iter().collect()
        }
        fn extend_val(&mut self, v: &[(f64, f64)]) {
            Extend::extend(self, v.iter().copied())
        }
        fn extend_ref(&mut self, v: &[(f64, f64)]) {
            Extend::extend(self, v.iter())
        }
        fn collect_shaped(v: &[(f64, f64)], by_ref: bool, shape: crate::types::Shape) -> Self {
            use crate::types::{Resuming, Shape};
            let mut w = v.to_vec();
            w.extend([(12345.0, 2.0), (-999.0, 0.5)]);
            match (shape, by_ref) {
                (Shape::Exact, false) => v.iter().copied().collect(),
                (Shape::Exact, true) => v.iter().collect(),
                (Shape::Lazy, false) => v.iter().copied().filter(|p| p.0 == p.0 || p.0 != p.0).collect(),
                (Shape::Lazy, true) => v.iter().filter(|p| p.0 == p.0 || p.0 != p.0).collect(),
                (Shape::Resuming, false) => Resuming::new(&w, v.len()).copied().collect(),
                (Shape::Resuming, true) => Resuming::new(&w, v.len()).collect(),
            }
        }
        fn extend_shaped(&mut self, v: &[(f64, f64)], by_ref: bool, shape: crate::types::Shape) {
            use crate::types::{Resuming, Shape};
            let mut w = v.to_vec();
            w.extend([(12345.0, 2.0), (-999.0, 0.5)]);
            match (shape, by_ref) {
                (Shape::Exact, false) => Extend::extend(self, v.iter().copied()),
                (Shape::Exact, true) => Extend::extend(self, v.iter()),
                (Shape::Lazy, false) => Extend::extend(self, v.iter().copied().filter(|p| p.0 == p.0 || p.0 != p.0)),
                (Shape::Lazy, true) => Extend::extend(self, v.iter().filter(|p| p.0 == p.0 || p.0 != p.0)),
                (Shape::Resuming, false) => Extend::extend(self, Resuming::new(&w, v.len()).copied()),
                (Shape::Resuming, true) => Extend::extend(self, Resuming::new(&w, v.len())),
            }
        }
    };
}

impl PairT for average::WeightedMean {
    const NAME: &'static str = "WeightedMean";
    pair_common!(average::WeightedMean);
    fn observe(&self, out: &mut Vec<PObs>) {
        out.push(("w.is_empty", guarded(|| self.is_empty() as u8 as f64)));
        out.push(("sum_weights", guarded(|| self.sum_weights())));
        out.push(("weighted_mean", guarded(|| self.mean())));
    }
}

impl PairT for average::WeightedMeanWithError {
    const NAME: &'static str = "WeightedMeanWithError";
    pair_common!(average::WeightedMeanWithError);
    fn observe(&self, out: &mut Vec<PObs>) {
        out.push(("len", guarded(|| self.len() as f64)));
        out.push(("is_empty", guarded(|| self.is_empty() as u8 as f64)));
        out.push(("sum_weights", guarded(|| self.sum_weights())));
        out.push(("sum_weights_sq", guarded(|| self.sum_weights_sq())));
        out.push(("weighted_mean", guarded(|| self.weighted_mean())));
        out.push(("unweighted_mean", guarded(|| self.unweighted_mean())));
        out.push(("effective_len", guarded(|| self.effective_len())));
        out.push(("population_variance", guarded(|| self.population_variance())));
        out.push(("sample_variance", guarded(|| self.sample_variance())));
        out.push(("variance_of_weighted_mean", guarded(|| self.variance_of_weighted_mean())));
        out.push(("error", guarded(|| self.error())));
    }
}

impl PairT for average::Covariance {
    const NAME: &'static str = "Covariance";
    pair_common!(average::Covariance);
    fn observe(&self, out: &mut Vec<PObs>) {
        out.push(("len", guarded(|| self.len() as f64)));
        out.push(("is_empty", guarded(|| self.is_empty() as u8 as f64)));
        out.push(("mean_x", guarded(|| self.mean_x())));
        out.push(("mean_y", guarded(|| self.mean_y())));
        out.push(("population_variance_x", guarded(|| self.population_variance_x())));
        out.push(("population_variance_y", guarded(|| self.population_variance_y())));
        out.push(("sample_variance_x", guarded(|| self.sample_variance_x())));
        out.push(("sample_variance_y", guarded(|| self.sample_variance_y())));
        out.push(("population_covariance", guarded(|| self.population_covariance())));
        out.push(("sample_covariance", guarded(|| self.sample_covariance())));
        out.push(("pearson", guarded(|| self.pearson())));
    }
}

#[derive(Clone, Debug)]
pub enum POp {
    Add(usize, i64, i64),
    Merge(usize, usize),
    Clone(usize, usize),
    Fresh(usize),
    Ckpt(usize),
}

fn parse_ops(h: &Value) -> Vec<POp> {
    h.as_array()
        .unwrap()
        .iter()
        .map(|e| {
            let a = e.as_array().unwrap();
            let i = |k: usize| a[k].as_i64().unwrap();
            match a[0].as_str().unwrap() {
                "add" => POp::Add(i(1) as usize - 1, i(2), i(3)),
                "merge" => POp::Merge(i(1) as usize - 1, i(2) as usize - 1),
                "clone" => POp::Clone(i(1) as usize - 1, i(2) as usize - 1),
                "fresh" => POp::Fresh(i(1) as usize - 1),
                "ckpt" => POp::Ckpt(i(1) as usize - 1),
                o => panic!("unknown op {o}"),
            }
        })
        .collect()
}

/// Undefined (0/0 etc.): outside every property's quantifier, not compared.
#[derive(Clone, Copy, Debug, PartialEq)]
pub enum PSpec {
    V(SpecVal),
    Undef,
}

pub struct PSlot {
    pub n: u64,
    pub data: Vec<(i64, i64)>,
    pub vals: HashMap<String, PSpec>,
    pub wempty: bool,
}

impl PSlot {
    fn parse(v: &Value) -> PSlot {
        let mut vals = HashMap::new();
        let mut wempty = false;
        for (k, x) in v.as_object().unwrap() {
            match k.as_str() {
                "n" | "data" => {}
                "wempty" => wempty = x.as_bool().unwrap(),
                _ => {
                    let pv = if x.as_str() == Some("undef") { PSpec::Undef } else { PSpec::V(SpecVal::parse(x)) };
                    vals.insert(k.clone(), pv);
                }
            }
        }
        PSlot {
            n: v["n"].as_u64().unwrap(),
            data: v["data"].as_array().unwrap().iter().map(|p| (p[0].as_i64().unwrap(), p[1].as_i64().unwrap())).collect(),
            vals,
            wempty,
        }
    }
    fn xs(&self) -> Vec<i64> {
        self.data.iter().map(|p| p.0).collect()
    }
    fn ys(&self) -> Vec<i64> {
        self.data.iter().map(|p| p.1).collect()
    }
}

/// Embedding of a pair: first and second coordinate independently.  For the weighted family the
/// second embedding is a pure scale (a = 0).
#[derive(Clone, Copy, Debug)]
pub struct PairEmb {
    pub e1: Embedding,
    pub e2: Embedding,
    /// weighted family only: the lattice weights are first mapped 0 -> 0, 1 -> 1, w >= 2 -> 2^38
    /// (then scaled by e2), so that weights of one stream span the whole range the property
    /// quantifies over; the specification's values are then re-derived from the mapped data by
    /// `wexact`, the harness's own evaluation of Weighted.tla's definitions
    pub wmap: bool,
}

pub const WX_BIG: i64 = 1 << 38;

pub fn wx(w: i64) -> i64 {
    match w {
        0 => 0,
        1 => 1,
        _ => WX_BIG,
    }
}

/// The accessor definitions of Weighted.tla (WeightedMean .. Error, on the ghost data) evaluated in
/// i128 rationals.  Cross-checked against every value the specification exports
/// (`oracle_crosschecks`); used alone only under the non-uniform weight map WX.
pub fn wexact(data: &[(i64, i64)]) -> (HashMap<String, PSpec>, bool) {
    let n = data.len() as i128;
    let xs: Vec<i64> = data.iter().map(|p| p.0).collect();
    let sw: i128 = data.iter().map(|p| p.1 as i128).sum();
    let sw2: i128 = data.iter().map(|p| (p.1 as i128) * (p.1 as i128)).sum();
    let swx: i128 = data.iter().map(|p| (p.1 as i128) * (p.0 as i128)).sum();
    let nan = PSpec::V(SpecVal::NaN);
    let r = |x: Rat| PSpec::V(SpecVal::R(x));
    let mut m = HashMap::new();
    m.insert("sw".to_string(), r(Rat::int(sw)));
    m.insert("sw2".to_string(), r(Rat::int(sw2)));
    m.insert("wmean".to_string(), if sw == 0 { nan } else { r(Rat::new(swx, sw)) });
    m.insert("umean".to_string(), if n > 0 { r(Bag(&xs).mean()) } else { nan });
    m.insert("efflen".to_string(), if n == 0 { r(Rat::int(0)) } else if sw2 == 0 { nan } else { r(Rat::new(sw.checked_mul(sw).unwrap(), sw2)) });
    m.insert("pvar".to_string(), if n == 0 { nan } else { r(Bag(&xs).central_sum(2).div(Rat::int(n))) });
    m.insert("svar".to_string(), if n < 2 { nan } else { r(Bag(&xs).central_sum(2).div(Rat::int(n - 1))) });
    if sw == 0 || n < 2 {
        m.insert("vowm".to_string(), nan);
        m.insert("err".to_string(), nan);
    } else {
        let v = Bag(&xs).central_sum(2).div(Rat::int(n - 1)).mul(Rat::new(sw2, sw.checked_mul(sw).unwrap()));
        m.insert("vowm".to_string(), r(v));
        m.insert("err".to_string(), if v.is_zero() { r(Rat::int(0)) } else { PSpec::V(SpecVal::Root(1, v)) });
    }
    (m, sw == 0)
}

pub fn weight_scale(name: &str) -> Embedding {
    match name {
        "W0" => Embedding { name: "W0", a: 0.0, b: 1.0 },
        "W1" => Embedding { name: "W1", a: 0.0, b: p2(-19) },
        "W2" => Embedding { name: "W2", a: 0.0, b: p2(18) },
        // far below any absolute epsilon (C16: NaN only when the total weight IS zero)
        "W3" => Embedding { name: "W3", a: 0.0, b: p2(-70) },
        // not a power of two (weights 0.1, 0.30000000000000004): for comparisons of two real
        // executions only (C18)
        "W4" => Embedding { name: "W4", a: 0.0, b: 0.1 },
        // with the weight map: {0, 2^-19, 2^19} = {0, 1.9e-6, 5.2e5}
        "WX" => Embedding { name: "WX", a: 0.0, b: p2(-19) },
        _ => panic!("unknown weight scale {name}"),
    }
}

pub fn parse_pair_embs(s: &str, weighted: bool) -> Vec<PairEmb> {
    s.split(',')
        .filter(|x| !x.is_empty())
        .map(|p| {
            let (a, b) = p.split_once(':').expect("pair embedding Ei:Ej");
            PairEmb { e1: embedding(a), e2: if weighted { weight_scale(b) } else { embedding(b) }, wmap: weighted && b == "WX" }
        })
        .collect()
}

#[derive(Clone)]
pub struct PWant {
    pub prop: String,
    pub types: Vec<String>,
    pub embs: Vec<PairEmb>,
    pub family: String, // "weighted" | "covariance"
}

impl PWant {
    fn is(&self, p: &str) -> bool {
        self.prop == p
    }
}

struct Stat {
    n: f64,
    constant: bool,
    sigma_v: f64,
    vmin: i64,
    vmax: i64,
    s2: f64, // central sum of squares (lattice units)
}

fn stat(v: &[i64]) -> Stat {
    if v.is_empty() {
        return Stat { n: 0.0, constant: true, sigma_v: 0.0, vmin: 0, vmax: 0, s2: 0.0 };
    }
    let b = Bag(v);
    let s2 = b.central_sum(2).to_f64();
    Stat { n: v.len() as f64, constant: b.is_constant(), sigma_v: (s2 / v.len() as f64).sqrt(), vmin: b.min(), vmax: b.max(), s2 }
}

fn xmax(e: &Embedding, s: &Stat) -> f64 {
    e.x(s.vmin).abs().max(e.x(s.vmax).abs())
}

struct World<T: PairT> {
    slots: Vec<T>,
    ghost: Vec<Vec<(i64, i64)>>,
    addonly: Vec<bool>,
    /// which of clone / clone_from a Clone step uses (histories with a Clone step run with both)
    parity: usize,
}

impl<T: PairT> World<T> {
    fn new(k: usize) -> Self {
        World { slots: (0..k).map(|i| if i % 2 == 0 { T::new() } else { T::default_() }).collect(), ghost: vec![vec![]; k], addonly: vec![true; k], parity: 0 }
    }
}

fn obs_bits<T: PairT>(t: &T) -> Vec<(&'static str, Option<u64>)> {
    let mut v = Vec::new();
    t.observe(&mut v);
    v.into_iter().map(|(a, x)| (a, x.map(bits))).collect()
}

fn first_diff(a: &[(&'static str, Option<u64>)], b: &[(&'static str, Option<u64>)]) -> Option<String> {
    for (x, y) in a.iter().zip(b.iter()) {
        if x != y {
            let f = |v: Option<u64>| v.map(|v| fmt_f(f64::from_bits(v))).unwrap_or("panic".into());
            return Some(format!("{}: {} vs {}", x.0, f(x.1), f(y.1)));
        }
    }
    None
}

fn apply<T: PairT>(w: &mut World<T>, op: &POp, e: &PairEmb, swap: bool) {
    match *op {
        POp::Add(s, a, b) => {
            if swap {
                w.slots[s].add(e.e2.x(b), e.e1.x(a));
            } else {
                w.slots[s].add(e.e1.x(a), e.e2.x(b));
            }
            w.ghost[s].push((a, b));
        }
        POp::Merge(d, s) => {
            let src = w.slots[s].clone();
            w.slots[d].merge(&src);
            let g = w.ghost[s].clone();
            w.ghost[d].extend(g);
            w.addonly[d] = false;
        }
        POp::Clone(d, s) => {
            // Clone::clone / Clone::clone_from alternately: the same step of the specification
            let src = w.slots[s].clone();
            if (w.ghost[d].len() + w.ghost[s].len() + w.parity) % 2 == 1 {
                w.slots[d].clone_from(&src);
            } else {
                w.slots[d] = src;
            }
            w.ghost[d] = w.ghost[s].clone();
            w.addonly[d] = w.addonly[s];
        }
        POp::Fresh(s) => {
            w.slots[s] = if (s + w.ghost.iter().map(|g| g.len()).sum::<usize>()) % 2 == 0 { T::new() } else { T::default_() };
            w.ghost[s].clear();
            w.addonly[s] = true;
        }
        POp::Ckpt(_) => {}
    }
}

fn viol<T: PairT>(rep: &mut Report, prop: &str, fam: &str, e: &PairEmb, h: &Value, slot: usize, acc: &str, what: String, detail: Value) {
    rep.violation(json!({
        "property": prop, "family": fam, "type": T::NAME, "embedding": format!("{}:{}", e.e1.name, e.e2.name),
        "history": h, "slot": slot + 1, "accessor": acc, "what": what, "detail": detail,
        "signature": format!("{}|{}|{}", prop, T::NAME, acc),
    }));
}

enum Verdict {
    Ok,
    Skip(&'static str),
    Bad(String),
}

fn envelope(obs: f64, sstar: f64, diff: f64, tol: f64) -> Verdict {
    if diff.abs() <= tol {
        Verdict::Ok
    } else {
        Verdict::Bad(format!("observed {} but the exact value is {} (|diff| = {:e} > envelope {:e})", fmt_f(obs), fmt_f(sstar), diff.abs(), tol))
    }
}

/// Compare one accessor of the weighted family.
fn check_weighted(acc: &str, obs: Option<f64>, sp: &PSlot, e: &PairEmb, addonly: bool, type_is_wm: bool) -> Verdict {
    let key = match acc {
        "weighted_mean" => "wmean",
        "unweighted_mean" => "umean",
        "sum_weights" => "sw",
        "sum_weights_sq" => "sw2",
        "effective_len" => "efflen",
        "population_variance" => "pvar",
        "sample_variance" => "svar",
        "variance_of_weighted_mean" => "vowm",
        "error" => "err",
        _ => "",
    };
    let n = sp.n as f64;
    if acc == "len" || acc == "is_empty" || acc == "w.is_empty" {
        let want = match acc {
            "len" => n,
            "is_empty" => (sp.n == 0) as u8 as f64,
            _ => sp.wempty as u8 as f64,
        };
        return if obs == Some(want) { Verdict::Ok } else { Verdict::Bad(format!("expected exactly {want}, observed {:?}", obs)) };
    }
    let exp = match sp.vals.get(key) {
        Some(PSpec::V(v)) => *v,
        Some(PSpec::Undef) => return Verdict::Skip("skipped_undefined"),
        None => return Verdict::Skip("skipped_no_spec_value"),
    };
    let _ = type_is_wm;
    if exp == SpecVal::NaN {
        return match obs {
            Some(o) if o.is_nan() => Verdict::Ok,
            o => Verdict::Bad(format!("expected the NaN sentinel, observed {:?}", o.map(fmt_f))),
        };
    }
    let obs = match obs {
        Some(o) => o,
        None => return Verdict::Bad("accessor panicked".into()),
    };
    let xs = sp.xs();
    let sx = stat(&xs);
    let x_max = xmax(&e.e1, &sx);
    let c = e.e2.b; // weight scale
    let r = exp.to_f64();
    match acc {
        "weighted_mean" if sx.constant && addonly => {
            // C16: one observation, or any add-only stream of identical observations x: exactly x
            let want = e.e1.x(xs[0]);
            if obs == want { Verdict::Ok } else { Verdict::Bad(format!("constant data: the weighted mean must be exactly {}, observed {}", fmt_f(want), fmt_f(obs))) }
        }
        "weighted_mean" => {
            // max|x| over the CONTRIBUTING observations: a zero-weight observation changes only
            // the unweighted statistics and len() (C08), so it must not widen the envelope either
            let contrib: Vec<i64> = sp.data.iter().filter(|p| p.1 > 0).map(|p| p.0).collect();
            let xc = contrib.iter().map(|&v| e.e1.x(v).abs()).fold(0.0f64, f64::max);
            let s = e.e1.a + e.e1.b * r;
            let d = (obs - e.e1.a) - e.e1.b * r;
            envelope(obs, s, d, 8.0 * n * U * xc + 4.0 * U * s.abs())
        }
        "sum_weights" => {
            let s = c * r;
            if s == 0.0 {
                return if obs == 0.0 { Verdict::Ok } else { Verdict::Bad(format!("expected exactly 0, observed {}", fmt_f(obs))) };
            }
            envelope(obs, s, obs - s, 8.0 * n * U * s.abs() + 4.0 * U * s.abs())
        }
        "sum_weights_sq" => {
            let s = c * c * r;
            if s == 0.0 {
                return if obs == 0.0 { Verdict::Ok } else { Verdict::Bad(format!("expected exactly 0, observed {}", fmt_f(obs))) };
            }
            envelope(obs, s, obs - s, 8.0 * n * U * s.abs() + 4.0 * U * s.abs())
        }
        "effective_len" => {
            if r == 0.0 {
                return if obs == 0.0 { Verdict::Ok } else { Verdict::Bad(format!("expected exactly 0, observed {}", fmt_f(obs))) };
            }
            // (sum w)^2 / sum w^2: three quantities each within 8 n u
            envelope(obs, r, obs - r, 3.0 * 8.0 * n * U * r.abs() + 4.0 * U * r.abs())
        }
        _ => {
            // unweighted statistics: the C01 envelope on the x data
            if sx.constant {
                if addonly || sp.n == 1 {
                    let want = if acc == "unweighted_mean" { e.e1.x(xs[0]) } else { 0.0 };
                    return if obs == want { Verdict::Ok } else { Verdict::Bad(format!("constant data: expected exactly {}, observed {}", fmt_f(want), fmt_f(obs))) };
                }
                return Verdict::Skip("skipped_constant_after_merge");
            }
            let sigma = e.e1.b * sx.sigma_v;
            let kappa = 1.0 + x_max / sigma;
            if !(kappa <= 1e12) {
                return Verdict::Skip("skipped_kappa_gt_1e12");
            }
            match acc {
                "unweighted_mean" => {
                    let s = e.e1.a + e.e1.b * r;
                    let d = (obs - e.e1.a) - e.e1.b * r;
                    envelope(obs, s, d, 8.0 * n * kappa * U * sigma + 4.0 * U * s.abs())
                }
                "population_variance" | "sample_variance" => {
                    let s = e.e1.b * e.e1.b * r;
                    envelope(obs, s, obs - s, 16.0 * n * kappa * U * s + 4.0 * U * s)
                }
                "variance_of_weighted_mean" => {
                    let s = e.e1.b * e.e1.b * r;
                    envelope(obs, s, obs - s, (16.0 * n * kappa * U + 16.0 * n * U) * s + 4.0 * U * s)
                }
                "error" => {
                    let s = e.e1.b * r;
                    envelope(obs, s, obs - s, (16.0 * n * kappa * U + 16.0 * n * U) * s + 4.0 * U * s)
                }
                _ => Verdict::Skip("skipped_unknown_accessor"),
            }
        }
    }
}

/// C17 for the weighted family.
fn c17_weighted(acc: &str, obs: Option<f64>, sp: &PSlot, e: &PairEmb) -> Option<String> {
    if sp.n == 0 {
        return None;
    }
    let n = sp.n as f64;
    let sumw: i64 = sp.data.iter().map(|p| p.1).sum();
    match acc {
        "population_variance" => match obs {
            Some(o) if o >= 0.0 => None,
            o => Some(format!("must be >= 0, observed {:?}", o)),
        },
        "sample_variance" if sp.n >= 2 => match obs {
            Some(o) if o >= 0.0 => None,
            o => Some(format!("must be >= 0, observed {:?}", o)),
        },
        "variance_of_weighted_mean" | "error" if sp.n >= 2 && sumw > 0 => match obs {
            Some(o) if o >= 0.0 => None,
            o => Some(format!("must be a real number >= 0, observed {:?}", o)),
        },
        "weighted_mean" if sumw > 0 => {
            let contrib: Vec<i64> = sp.data.iter().filter(|p| p.1 > 0).map(|p| p.0).collect();
            let lo = e.e1.x(*contrib.iter().min().unwrap());
            let hi = e.e1.x(*contrib.iter().max().unwrap());
            let slack = 8.0 * n * U * lo.abs().max(hi.abs());
            match obs {
                Some(o) if o >= lo - slack && o <= hi + slack => None,
                o => Some(format!("weighted mean must lie in [{:e}, {:e}] (slack {:e}), observed {:?}", lo, hi, slack, o)),
            }
        }
        "unweighted_mean" => {
            let all = stat(&sp.xs());
            let lo = e.e1.x(all.vmin);
            let hi = e.e1.x(all.vmax);
            let slack = 8.0 * n * U * xmax(&e.e1, &all);
            match obs {
                Some(o) if o >= lo - slack && o <= hi + slack => None,
                o => Some(format!("mean must lie in [{:e}, {:e}], observed {:?}", lo, hi, o)),
            }
        }
        "effective_len" if sumw > 0 => {
            let rel = n * (2.0f64).powi(-50);
            match obs {
                Some(o) if o >= 1.0 * (1.0 - rel) && o <= n * (1.0 + rel) => None,
                o => Some(format!("effective_len must lie in [1, {}], observed {:?}", n, o)),
            }
        }
        _ => None,
    }
}

/// Compare one accessor of Covariance.  `swap`: the object was fed (y, x).
fn check_cov(acc: &str, obs: Option<f64>, sp: &PSlot, e: &PairEmb, addonly: bool, swap: bool) -> Verdict {
    let n = sp.n as f64;
    if acc == "len" || acc == "is_empty" {
        let want = if acc == "len" { n } else { (sp.n == 0) as u8 as f64 };
        return if obs == Some(want) { Verdict::Ok } else { Verdict::Bad(format!("expected exactly {want}, observed {:?}", obs)) };
    }
    // which coordinate of the *specification* this accessor of the (possibly swapped) object reads
    let (key, coord): (&str, u8) = match (acc, swap) {
        ("mean_x", false) | ("mean_y", true) => ("mx", 1),
        ("mean_y", false) | ("mean_x", true) => ("my", 2),
        ("population_variance_x", false) | ("population_variance_y", true) => ("pvx", 1),
        ("population_variance_y", false) | ("population_variance_x", true) => ("pvy", 2),
        ("sample_variance_x", false) | ("sample_variance_y", true) => ("svx", 1),
        ("sample_variance_y", false) | ("sample_variance_x", true) => ("svy", 2),
        ("population_covariance", _) => ("pcov", 0),
        ("sample_covariance", _) => ("scov", 0),
        ("pearson", _) => ("pear", 0),
        _ => return Verdict::Skip("skipped_unknown_accessor"),
    };
    let exp = match sp.vals.get(key) {
        Some(PSpec::V(v)) => *v,
        Some(PSpec::Undef) => return Verdict::Skip("skipped_undefined"),
        None => return Verdict::Skip("skipped_no_spec_value"),
    };
    if exp == SpecVal::NaN {
        return match obs {
            Some(o) if o.is_nan() => Verdict::Ok,
            o => Verdict::Bad(format!("expected the NaN sentinel, observed {:?}", o.map(fmt_f))),
        };
    }
    let obs = match obs {
        Some(o) => o,
        None => return Verdict::Bad("accessor panicked".into()),
    };
    let sx = stat(&sp.xs());
    let sy = stat(&sp.ys());
    let r = exp.to_f64();
    let kx = 1.0 + xmax(&e.e1, &sx) / (e.e1.b * sx.sigma_v);
    let ky = 1.0 + xmax(&e.e2, &sy) / (e.e2.b * sy.sigma_v);
    if coord != 0 {
        let (em, st, kappa) = if coord == 1 { (&e.e1, &sx, kx) } else { (&e.e2, &sy, ky) };
        if st.constant {
            if addonly || sp.n == 1 {
                let v0 = if coord == 1 { sp.data[0].0 } else { sp.data[0].1 };
                let want = if key.starts_with('m') { em.x(v0) } else { 0.0 };
                return if obs == want { Verdict::Ok } else { Verdict::Bad(format!("constant data: expected exactly {}, observed {}", fmt_f(want), fmt_f(obs))) };
            }
            return Verdict::Skip("skipped_constant_after_merge");
        }
        if !(kappa <= 1e12) {
            return Verdict::Skip("skipped_kappa_gt_1e12");
        }
        return if key.starts_with('m') {
            let s = em.a + em.b * r;
            let d = (obs - em.a) - em.b * r;
            envelope(obs, s, d, 8.0 * n * kappa * U * (em.b * st.sigma_v) + 4.0 * U * s.abs())
        } else {
            let s = em.b * em.b * r;
            envelope(obs, s, obs - s, 16.0 * n * kappa * U * s + 4.0 * U * s)
        };
    }
    // covariance / pearson: need spread in both coordinates
    if sx.constant || sy.constant {
        return Verdict::Skip("skipped_zero_spread");
    }
    let kappa = kx.max(ky);
    if !(kappa <= 1e12) {
        return Verdict::Skip("skipped_kappa_gt_1e12");
    }
    match key {
        "pcov" | "scov" => {
            let s = e.e1.b * e.e2.b * r;
            let denom = if key == "pcov" { n } else { n - 1.0 };
            let scale = e.e1.b * e.e2.b * (sx.s2 * sy.s2).sqrt() / denom;
            envelope(obs, s, obs - s, 16.0 * n * kappa * U * scale + 4.0 * U * s.abs())
        }
        _ => envelope(obs, r, obs - r, 32.0 * n * kappa * U + 4.0 * U * r.abs()),
    }
}

fn c17_cov(acc: &str, obs: Option<f64>, sp: &PSlot) -> Option<String> {
    if sp.n == 0 {
        return None;
    }
    match acc {
        "population_variance_x" | "population_variance_y" => match obs {
            Some(o) if o >= 0.0 => None,
            o => Some(format!("must be >= 0, observed {:?}", o)),
        },
        "sample_variance_x" | "sample_variance_y" if sp.n >= 2 => match obs {
            Some(o) if o >= 0.0 => None,
            o => Some(format!("must be >= 0, observed {:?}", o)),
        },
        _ => None,
    }
}

fn exp_is_nan(fam: &str, acc: &str, sp: &PSlot, swap: bool) -> bool {
    let key = if fam == "weighted" {
        match acc {
            "weighted_mean" => "wmean",
            "unweighted_mean" => "umean",
            "sum_weights" => "sw",
            "sum_weights_sq" => "sw2",
            "effective_len" => "efflen",
            "population_variance" => "pvar",
            "sample_variance" => "svar",
            "variance_of_weighted_mean" => "vowm",
            "error" => "err",
            _ => return false,
        }
    } else {
        match (acc, swap) {
            ("mean_x", false) | ("mean_y", true) => "mx",
            ("mean_y", false) | ("mean_x", true) => "my",
            ("population_variance_x", false) | ("population_variance_y", true) => "pvx",
            ("population_variance_y", false) | ("population_variance_x", true) => "pvy",
            ("sample_variance_x", false) | ("sample_variance_y", true) => "svx",
            ("sample_variance_y", false) | ("sample_variance_x", true) => "svy",
            ("population_covariance", _) => "pcov",
            ("sample_covariance", _) => "scov",
            ("pearson", _) => "pear",
            _ => return false,
        }
    };
    matches!(sp.vals.get(key), Some(PSpec::V(SpecVal::NaN)))
}

fn tags(fam: &str, acc: &str, sp: &PSlot, exp_nan: bool, addonly: bool) -> Vec<&'static str> {
    let mut t = vec![if fam == "weighted" { "C08" } else { "C09" }];
    if acc == "len" || acc == "is_empty" {
        t.push("C11");
    }
    if fam == "weighted" && matches!(acc, "sample_variance" | "variance_of_weighted_mean" | "error") {
        t.push("C10");
    }
    let sumw: i64 = sp.data.iter().map(|p| p.1).sum();
    let constant_x = sp.n >= 1 && sp.data.iter().all(|p| p.0 == sp.data[0].0);
    let constant_y = fam != "weighted" && sp.n >= 1 && sp.data.iter().all(|p| p.1 == sp.data[0].1);
    if sp.n <= 1 || exp_nan || (fam == "weighted" && sumw == 0) || (addonly && (constant_x || constant_y)) {
        t.push("C16");
    }
    t
}

fn replay_one<T: PairT>(h: &Value, ops: &[POp], specs: &[PSlot], e: &PairEmb, want: &PWant, rep: &mut Report, parity: usize) {
    let k = specs.len();
    let fam = want.family.as_str();
    rep.replays += 1;
    let mut w = World::<T>::new(k);
    // parity & 1: Clone variant; parity & 2: all accessors of all objects are read after every step too
    w.parity = parity % 2;
    let reads_between = parity >= 2;
    let has_ckpt = ops.iter().any(|o| matches!(o, POp::Ckpt(_)));
    for (step, op) in ops.iter().enumerate() {
        if let (true, POp::Merge(d, s)) = (want.is("C11"), op) {
            let (d, s) = (*d, *s);
            let d0 = obs_bits(&w.slots[d]);
            let s0 = obs_bits(&w.slots[s]);
            let (ld, ls) = (w.ghost[d].len(), w.ghost[s].len());
            {
                let (dst, src): (&mut T, &T) = if d < s {
                    let (a, b) = w.slots.split_at_mut(s);
                    (&mut a[d], &b[0])
                } else {
                    let (a, b) = w.slots.split_at_mut(d);
                    (&mut b[0], &a[s])
                };
                dst.merge(src);
            }
            let g = w.ghost[s].clone();
            w.ghost[d].extend(g);
            w.addonly[d] = false;
            let d1 = obs_bits(&w.slots[d]);
            let s1 = obs_bits(&w.slots[s]);
            rep.evaluations += 4;
            let fail = |what: String, rep: &mut Report| {
                viol::<T>(rep, "C11", fam, e, h, d, "merge", what, json!({"step": step + 1, "op": format!("{:?}", op)}));
            };
            if let Some(df) = first_diff(&s0, &s1) {
                fail(format!("merge modified its argument: {df}"), rep);
            }
            let get = |o: &[(&'static str, Option<u64>)], name: &str| o.iter().find(|x| x.0 == name).and_then(|x| x.1).map(f64::from_bits);
            if let Some(l) = get(&d1, "len") {
                if l != (ld + ls) as f64 {
                    fail(format!("merged len {} != {} + {}", l, ld, ls), rep);
                }
                if get(&d1, "is_empty") != Some(((ld + ls) == 0) as u8 as f64) {
                    fail(format!("is_empty() = {:?} with len {}", get(&d1, "is_empty"), ld + ls), rep);
                }
            }
            if ls == 0 {
                if let Some(df) = first_diff(&d0, &d1) {
                    fail(format!("merging an empty estimator changed the destination: {df}"), rep);
                }
            }
            if ld == 0 {
                if let Some(df) = first_diff(&s0, &d1) {
                    fail(format!("merging into an empty estimator did not reproduce the source: {df}"), rep);
                }
            }
            continue;
        }
        apply(&mut w, op, e, false);
        if reads_between {
            for s in 0..k {
                let _ = obs_bits(&w.slots[s]);
            }
        }
    }
    for s in 0..k {
        if w.ghost[s] != specs[s].data {
            rep.tool_errors.push(format!("ghost data mismatch slot {s}"));
            return;
        }
    }
    let envelope_prop = matches!(want.prop.as_str(), "C08" | "C09" | "C10" | "C16" | "C11");
    if envelope_prop || want.is("C17") {
        // for Covariance also the twin fed the swapped pairs
        let swaps: &[bool] = if fam == "covariance" && want.is("C09") { &[false, true] } else { &[false] };
        for &swap in swaps {
            let wt = if swap {
                let mut t = World::<T>::new(k);
                for op in ops {
                    apply(&mut t, op, e, true);
                }
                t
            } else {
                World { slots: w.slots.clone(), ghost: w.ghost.clone(), addonly: w.addonly.clone(), parity: w.parity }
            };
            for s in 0..k {
                let mut obs = Vec::new();
                wt.slots[s].observe(&mut obs);
                let sp = &specs[s];
                for (acc, o) in obs.iter().copied() {
                    if want.is("C17") {
                        rep.evaluations += 1;
                        let bad = if fam == "weighted" { c17_weighted(acc, o, sp, e) } else { c17_cov(acc, o, sp) };
                        if let Some(what) = bad {
                            viol::<T>(rep, "C17", fam, e, h, s, acc, what, json!({"data": sp.data}));
                        }
                        continue;
                    }
                    let verdict = if fam == "weighted" {
                        check_weighted(acc, o, sp, e, wt.addonly[s], T::NAME == "WeightedMean")
                    } else {
                        check_cov(acc, o, sp, e, wt.addonly[s], swap)
                    };
                    let exp_nan = exp_is_nan(fam, acc, sp, swap);
                    let tg = tags(fam, acc, sp, exp_nan, wt.addonly[s]);
                    if !tg.contains(&want.prop.as_str()) {
                        continue;
                    }
                    rep.evaluations += 1;
                    match verdict {
                        Verdict::Ok => {}
                        Verdict::Skip(k) => rep.bump(k, 1),
                        Verdict::Bad(what) => {
                            let accn = if swap { format!("{acc} (swapped twin)") } else { acc.to_string() };
                            viol::<T>(rep, &want.prop, fam, e, h, s, &accn, what, json!({"data": sp.data}));
                        }
                    }
                }
            }
        }
    }
    if want.is("C18") && has_ckpt {
        let mut w1 = World::<T>::new(k);
        w1.parity = parity % 2;
        for (step, op) in ops.iter().enumerate() {
            if let POp::Ckpt(s) = op {
                let before = obs_bits(&w1.slots[*s]);
                let j = w1.slots[*s].to_json();
                let after = obs_bits(&w1.slots[*s]);
                let restored = T::from_json(&j);
                let rb = obs_bits(&restored);
                rep.evaluations += 2;
                if let Some(df) = first_diff(&before, &after) {
                    viol::<T>(rep, "C18", fam, e, h, *s, "serialize", format!("serialising modified the estimator: {df}"), json!({"step": step + 1}));
                }
                if let Some(df) = first_diff(&before, &rb) {
                    viol::<T>(rep, "C18", fam, e, h, *s, "roundtrip", format!("restored estimator differs: {df}"), json!({"step": step + 1, "json": j}));
                }
                // the same through a positional (not self-describing) lossless format
                let mut restored = restored;
                match w1.slots[*s].roundtrip_pos() {
                    Ok(rp) => {
                        rep.evaluations += 1;
                        if let Some(df) = first_diff(&before, &obs_bits(&rp)) {
                            viol::<T>(rep, "C18", fam, e, h, *s, "roundtrip (positional format)", format!("restored estimator differs: {df}"), json!({"step": step + 1, "json": j}));
                        }
                        if step % 2 == 1 {
                            restored = rp;
                        }
                    }
                    Err(_) => rep.bump("positional_format_not_supported", 1),
                }
                w1.slots[*s] = restored;
            } else {
                apply(&mut w1, op, e, false);
            }
        }
        for s in 0..k {
            rep.evaluations += 1;
            if let Some(df) = first_diff(&obs_bits(&w.slots[s]), &obs_bits(&w1.slots[s])) {
                viol::<T>(rep, "C18", fam, e, h, s, "continue", format!("continuing on the restored copy diverged from the uninterrupted computation: {df}"), json!({}));
            }
        }
    }
}

fn run_type<T: PairT>(h: &Value, ops: &[POp], specs: &[PSlot], want: &PWant, rep: &mut Report) {
    if !want.types.iter().any(|t| t == T::NAME) {
        return;
    }
    for e in &want.embs {
        let mapped: Option<(Vec<POp>, Vec<PSlot>)> = if e.wmap {
            let ops2 = ops.iter().map(|o| match *o { POp::Add(s, a, b) => POp::Add(s, a, wx(b)), ref x => x.clone() }).collect();
            let specs2 = specs
                .iter()
                .map(|sp| {
                    let data: Vec<(i64, i64)> = sp.data.iter().map(|p| (p.0, wx(p.1))).collect();
                    let (vals, wempty) = wexact(&data);
                    PSlot { n: sp.n, data, vals, wempty }
                })
                .collect();
            Some((ops2, specs2))
        } else {
            None
        };
        let (ops, specs): (&[POp], &[PSlot]) = match &mapped {
            Some((o, s)) => (o, s),
            None => (ops, specs),
        };
        let clones = ops.iter().any(|o| matches!(o, POp::Clone(_, _)));
        let parities: &[usize] = match (clones, ops.len() >= 2) {
            (true, true) => &[0, 1, 2, 3],
            (true, false) => &[0, 1],
            (false, true) => &[0, 2],
            (false, false) => &[0],
        };
        for &parity in parities {
            let r = std::panic::catch_unwind(std::panic::AssertUnwindSafe(|| replay_one::<T>(h, ops, specs, e, want, &mut *rep, parity)));
            if r.is_err() {
                viol::<T>(rep, &want.prop, &want.family, e, h, 0, "panic", "the code under test panicked (new / add / merge / clone / serde)".into(), json!({}));
            }
        }
    }
}

pub fn process_line(v: &Value, want: &PWant, rep: &mut Report) {
    let h = &v["h"];
    let ops = parse_ops(h);
    let specs: Vec<PSlot> = v["s"].as_array().unwrap().iter().map(PSlot::parse).collect();
    let hs = hash_str(&h.to_string());
    rep.behaviours += 1;
    let kept_before = rep.violations.len();
    if !rep.distinct.insert(hs) {
        rep.bump("duplicate_histories", 1);
        return;
    }
    if specs.iter().any(|s| s.n >= 2 && !Bag(&s.xs()).is_constant()) {
        rep.nontrivial.insert(hs);
    }
    // oracle cross-check: unweighted mean / x mean from the harness's own exact evaluation
    for s in &specs {
        if s.n > 0 {
            let key = if want.family == "weighted" { "umean" } else { "mx" };
            if let Some(PSpec::V(SpecVal::R(m))) = s.vals.get(key) {
                if *m != Bag(&s.xs()).mean() {
                    rep.tool_errors.push(format!("oracle disagreement on mean for {:?}", s.data));
                }
                rep.crosschecks += 1;
            }
        }
    }
    // the whole accessor table of the weighted family from the harness's own evaluation
    if want.family == "weighted" {
        for s in &specs {
            let (mine, wempty) = wexact(&s.data);
            if wempty != s.wempty {
                rep.tool_errors.push(format!("oracle disagreement on wempty for {:?}", s.data));
            }
            for (k, v) in &s.vals {
                if matches!(v, PSpec::Undef) {
                    continue;
                }
                rep.crosschecks += 1;
                let same = match (mine.get(k), v) {
                    (Some(PSpec::V(a)), PSpec::V(b)) => a == b,
                    _ => false,
                };
                if !same {
                    rep.tool_errors.push(format!("oracle disagreement on {k} for {:?}: specification {:?}, harness {:?}", s.data, v, mine.get(k)));
                }
            }
        }
    }
    if rep.nontrivial.contains(&hs) {
        rep.sample(json!({"history": h, "spec_slot1": {"n": specs[0].n, "data": specs[0].data}}));
    }
    if want.family == "weighted" {
        run_type::<average::WeightedMean>(h, &ops, &specs, want, rep);
        run_type::<average::WeightedMeanWithError>(h, &ops, &specs, want, rep);
    } else {
        run_type::<average::Covariance>(h, &ops, &specs, want, rep);
    }
    for x in rep.violations.iter_mut().skip(kept_before) {
        x["line"] = v.clone();
    }
}
