//! C18 on long streams: state that a serde round trip might lose can take many observations to
//! build up (a compensation term, a cache, a flag).  Every estimator type runs next to a twin that
//! is serialised and restored -- through JSON at even positions, through the positional format at
//! odd ones -- before EVERY observation and before every merge; after every step the twin must
//! report, bit for bit, what the uninterrupted estimator reports, and serialise to the same text.
//! Values and weights are full-mantissa, not sums of a few powers of two.

use crate::pairs::{PObs, PairT};
use crate::report::*;
use crate::types::*;
use rand::{Rng, SeedableRng};
use rand_xoshiro::Xoshiro256PlusPlus;
use serde_json::json;

fn fail(rep: &mut Report, ty: &str, step: usize, what: String, seed: u64) {
    rep.violation(json!({"property": "C18", "family": "serdelong", "type": ty, "embedding": "full-mantissa values",
        "history": {"seed": seed, "step": step}, "accessor": "twin", "what": what, "signature": format!("C18|{}|serdelong", ty)}));
}

fn mom_bits<T: MomT>(t: &T) -> Vec<(String, Option<u64>)> {
    let mut v = Vec::new();
    t.observe(&mut v);
    v.into_iter().map(|(a, x)| (a.name(), x.map(|f| f.to_bits()))).collect()
}

fn run_mom<T: MomT>(rng: &mut Xoshiro256PlusPlus, n: usize, seed: u64, rep: &mut Report) {
    rep.behaviours += 1;
    rep.nontrivial.insert(hash_str(&format!("serdelong{}{}", T::NAME, seed)));
    let r = std::panic::catch_unwind(std::panic::AssertUnwindSafe(|| {
        let mut a = T::new();
        let mut twin = T::new();
        for i in 0..n {
            twin = if i % 2 == 0 { T::from_json(&twin.to_json()) } else { twin.roundtrip_pos().unwrap_or_else(|_| T::from_json(&twin.to_json())) };
            if i % 37 == 36 {
                // a chunk built on the side and merged into both
                let mut c = T::new();
                for _ in 0..(i % 5) {
                    c.add(rng.random::<f64>() * 3.0 - 1.1);
                }
                a.merge(&c);
                twin.merge(&c);
            } else {
                let x = match i % 4 { 0 => 0.1 * (i % 9) as f64, 1 => rng.random::<f64>() * 2.0 - 0.7, 2 => 1e9 + rng.random::<f64>(), _ => -0.3 };
                a.add(x);
                twin.add(x);
            }
            if mom_bits(&a) != mom_bits(&twin) || a.to_json() != twin.to_json() {
                return Some(i + 1);
            }
        }
        None
    }));
    rep.evaluations += n as u64;
    match r {
        Ok(None) => {}
        Ok(Some(step)) => fail(rep, T::NAME, step, format!("after {} steps the twin that is restored before every step differs from the uninterrupted estimator", step), seed),
        Err(_) => fail(rep, T::NAME, 0, "panicked".into(), seed),
    }
}

fn pair_bits<T: PairT>(t: &T) -> Vec<(String, Option<u64>)> {
    let mut v: Vec<PObs> = Vec::new();
    t.observe(&mut v);
    v.into_iter().map(|(a, x)| (a.to_string(), x.map(|f| f.to_bits()))).collect()
}

fn run_pair<T: PairT>(rng: &mut Xoshiro256PlusPlus, n: usize, seed: u64, rep: &mut Report) {
    rep.behaviours += 1;
    rep.nontrivial.insert(hash_str(&format!("serdelong{}{}", T::NAME, seed)));
    let r = std::panic::catch_unwind(std::panic::AssertUnwindSafe(|| {
        let mut a = T::new();
        let mut twin = T::new();
        for i in 0..n {
            twin = if i % 2 == 0 { T::from_json(&twin.to_json()) } else { twin.roundtrip_pos().unwrap_or_else(|_| T::from_json(&twin.to_json())) };
            if i % 41 == 40 {
                let mut c = T::new();
                for k in 0..(i % 4) {
                    c.add(rng.random::<f64>(), 0.1 * (k + 1) as f64);
                }
                a.merge(&c);
                twin.merge(&c);
            } else {
                let mut x = rng.random::<f64>() * 5.0 - 2.0;
                // weights that are not exactly summable; zeros now and then
                let mut w = match i % 5 { 0 => 0.1, 1 => 0.2, 2 => 0.0, 3 => rng.random::<f64>() + 0.01, _ => 0.7 };
                if T::NAME == "Covariance" {
                    // the second coordinate is a value, not a weight: exactly collinear / anti-collinear
                    // data with non-dyadic coefficients (sum_prod^2 within an ulp of sum_x_2 * sum_y_2), a
                    // constant coordinate (0/0 states), magnitudes whose products underflow
                    match seed % 4 {
                        1 => w = 0.3 * x + 0.7,
                        2 => w = -1.7 * x + 1.0e3,
                        3 => {
                            if i < n / 2 {
                                w = 0.7;
                            } else {
                                x *= 1.0e-90;
                                w = (w + 0.1) * 1.0e-95;
                            }
                        }
                        _ => {}
                    }
                }
                a.add(x, w);
                twin.add(x, w);
            }
            if pair_bits(&a) != pair_bits(&twin) || a.to_json() != twin.to_json() {
                return Some(i + 1);
            }
        }
        None
    }));
    rep.evaluations += n as u64;
    match r {
        Ok(None) => {}
        Ok(Some(step)) => fail(rep, T::NAME, step, format!("after {} steps the twin that is restored before every step differs from the uninterrupted estimator", step), seed),
        Err(_) => fail(rep, T::NAME, 0, "panicked".into(), seed),
    }
}

pub fn direct_serdelong(seed: u64, n: usize, rep: &mut Report) {
    let mut rng = Xoshiro256PlusPlus::seed_from_u64(seed);
    for r in 0..4u64 {
        let s = seed * 100 + r;
        run_mom::<average::Mean>(&mut rng, n, s, rep);
        run_mom::<average::Variance>(&mut rng, n, s, rep);
        run_mom::<average::Skewness>(&mut rng, n, s, rep);
        run_mom::<average::Kurtosis>(&mut rng, n, s, rep);
        run_mom::<average::Moments4>(&mut rng, n, s, rep);
        run_mom::<m6::M6>(&mut rng, n, s, rep);
        run_pair::<average::WeightedMean>(&mut rng, n, s, rep);
        run_pair::<average::WeightedMeanWithError>(&mut rng, n, s, rep);
        run_pair::<average::Covariance>(&mut rng, n, s, rep);
    }
    rep.sample(json!({"family": "serdelong", "steps_per_stream": n, "streams_per_type": 4, "types": 9}));
}
