//! C05 on long streams: the real Quantile runs side by side with `qref` (Step of Quantile.tla in
//! f64, cross-checked against the exact specification on every TLC-generated step).  After every
//! observation from the fifth on the marker positions and desired positions must be equal and the
//! marker heights and quantile() must agree within the tolerance -- for as long as no comparison
//! the algorithm makes has come within 1e-9 (relative) of a tie; from such a step on the stream is
//! no longer decided (f64 evaluation order may legitimately differ), which is counted.
//!
//! p is dyadic (desired positions are then exact in any formulation) and the data are continuous
//! (full-mantissa values without repeats), the complement of the small-alphabet, tie-everywhere
//! streams the exhaustive replay covers.

use crate::exact::U;
use crate::qref::QRef;
use crate::quantile::markers;
use crate::report::*;
use average::{Estimate, Quantile};
use rand::{Rng, SeedableRng};
use rand_xoshiro::Xoshiro256PlusPlus;
use serde_json::json;

pub fn shapes(rng: &mut Xoshiro256PlusPlus, n: usize) -> Vec<(&'static str, Vec<f64>)> {
    let mut v: Vec<(&'static str, Vec<f64>)> = Vec::new();
    let u = |rng: &mut Xoshiro256PlusPlus| rng.random::<f64>();
    v.push(("uniform", (0..n).map(|_| u(rng) * 100.0 - 50.0).collect()));
    v.push(("bell", (0..n).map(|_| (0..6).map(|_| u(rng)).sum::<f64>() - 3.0).collect()));
    v.push(("heavy-tail", (0..n).map(|_| 1.0 / (u(rng) + 1e-6)).collect()));
    v.push(("rising-trend", (0..n).map(|i| i as f64 * 0.37 + u(rng) * 5.0).collect()));
    v.push(("falling-trend", (0..n).map(|i| -(i as f64) * 0.37 + u(rng) * 5.0).collect()));
    v.push(("widening-zigzag", (0..n).map(|i| (if i % 2 == 0 { 1.0 } else { -1.0 }) * (i as f64 + u(rng))).collect()));
    v.push(("two-scales", (0..n).map(|i| if i % 7 == 0 { 1e9 * u(rng) } else { u(rng) }).collect()));
    v.push(("regime-shift", (0..n).map(|i| if (i / 500) % 2 == 0 { u(rng) } else { 10.0 + u(rng) }).collect()));
    v.push(("nearly-sorted", (0..n).map(|i| i as f64 + 3.0 * u(rng)).collect()));
    v.push(("tiny-scale", (0..n).map(|_| 1e-12 * (u(rng) - 0.5)).collect()));
    v.push(("offset", (0..n).map(|_| 1e3 + u(rng)).collect()));
    // the far ends of the exponent range (scaling by a power of two is exact, so P-square must
    // produce exactly the scaled heights): products of two height differences underflow / overflow
    v.push(("uniform * 2^-600", (0..n).map(|_| (u(rng) * 100.0 - 50.0) * 2f64.powi(-600)).collect()));
    v.push(("uniform * 2^600", (0..n).map(|_| (u(rng) * 100.0 - 50.0) * 2f64.powi(600)).collect()));
    v
}

pub fn direct_qlong(prop: &str, seed: u64, max_n: usize, rep: &mut Report) {
    let mut rng = Xoshiro256PlusPlus::seed_from_u64(seed);
    let ps = [0.0, 0.0625, 0.125, 0.25, 0.5, 0.75, 0.875, 0.9375, 1.0];
    for (shape, xs) in shapes(&mut rng, max_n) {
        for &p in &ps {
            rep.behaviours += 1;
            let label = json!({"shape": shape, "p": p, "n": xs.len(), "seed": seed});
            rep.nontrivial.insert(hash_str(&label.to_string()));
            let r = std::panic::catch_unwind(std::panic::AssertUnwindSafe(|| run(prop, shape, p, &xs, seed, &mut *rep)));
            if r.is_err() {
                rep.violation(json!({"property": prop, "family": "qlong", "type": "Quantile", "embedding": shape, "history": label,
                    "accessor": "panic", "what": "the code under test panicked", "signature": format!("{}|Quantile|panic", prop)}));
            }
        }
    }
    // streams of millions of observations (position gaps beyond 2^21, whose products of three no
    // longer fit 64-bit integers), compared at every 4096th step
    let very_long = if max_n >= 50_000 { 16_000_000 } else { 8_000_000 };
    for &p in &[0.5, 0.9375, 1.0, 0.0625] {
        rep.behaviours += 1;
        let label = json!({"shape": "uniform, very long", "p": p, "n": very_long, "seed": seed});
        rep.nontrivial.insert(hash_str(&label.to_string()));
        let r = std::panic::catch_unwind(std::panic::AssertUnwindSafe(|| run_sparse(prop, p, very_long, seed, &mut *rep)));
        if r.is_err() {
            rep.violation(json!({"property": prop, "family": "qlong", "type": "Quantile", "embedding": "uniform, very long", "history": label,
                "accessor": "panic", "what": "the code under test panicked", "signature": format!("{}|Quantile|panic", prop)}));
        }
    }
    rep.sample(json!({"family": "qlong", "p": ps, "n": max_n, "shapes": 13, "very_long": very_long}));
}

fn run_sparse(prop: &str, p: f64, n: usize, seed: u64, rep: &mut Report) {
    rep.replays += 1;
    let mut rng = Xoshiro256PlusPlus::seed_from_u64(seed ^ 0x5eed ^ p.to_bits());
    let mut qt = Quantile::new(p);
    let mut rf = QRef::new(p);
    let shape = "uniform, very long";
    for i in 0..n {
        let x = rng.random::<f64>() * 100.0 - 50.0;
        qt.add(x);
        let mg = rf.add(x);
        let cnt = i + 1;
        if cnt < 5 {
            continue;
        }
        if mg.0 < 1e-9 {
            rep.bump("very_long_streams_rounding_sensitive_from_some_step", 1);
            rep.bump("steps_decided", (cnt - 5) as u64);
            return;
        }
        if cnt % 4096 != 0 && cnt != n {
            continue;
        }
        let tol = (64.0 * cnt as f64 * U).max(1e-10) * 50.0;
        let fail = |rep: &mut Report, acc: &str, what: String| {
            rep.violation(json!({"property": prop, "family": "qlong", "type": "Quantile", "embedding": shape,
                "history": {"shape": shape, "p": p, "seed": seed, "observations": cnt},
                "accessor": acc, "what": what, "signature": format!("{}|Quantile|{}", prop, acc)}));
        };
        rep.evaluations += 1;
        let got = qt.quantile();
        if !((got - rf.quantile_big()).abs() <= tol) {
            fail(rep, "quantile", format!("after {} observations quantile() = {} but P-square (Quantile.tla's Step in f64) gives {} (tolerance {:e})", cnt, fmt_f(got), fmt_f(rf.quantile_big()), tol));
            return;
        }
        if let Some(m) = markers(&qt) {
            rep.evaluations += 15;
            if m.n != rf.n {
                fail(rep, "positions", format!("after {} observations marker positions {:?} but P-square prescribes {:?}", cnt, m.n, rf.n));
                return;
            }
            if (0..5).any(|j| m.m[j] != rf.m[j]) {
                fail(rep, "desired positions", format!("after {} observations desired positions {:?} but P-square prescribes {:?}", cnt, m.m, rf.m));
                return;
            }
            if let Some(j) = (0..5).find(|&j| !((m.q[j] - rf.q[j]).abs() <= tol)) {
                fail(rep, "heights", format!("after {} observations marker {} has height {} but P-square prescribes {} (tolerance {:e})", cnt, j + 1, fmt_f(m.q[j]), fmt_f(rf.q[j]), tol));
                return;
            }
        }
    }
    rep.bump("very_long_streams_decided_to_the_end", 1);
    rep.bump("steps_decided", (n.saturating_sub(4)) as u64);
}

fn run(prop: &str, shape: &str, p: f64, xs: &[f64], seed: u64, rep: &mut Report) {
    rep.replays += 1;
    let mut qt = Quantile::new(p);
    let mut rf = QRef::new(p);
    let mut scale = 0.0f64;
    for (i, &x) in xs.iter().enumerate() {
        qt.add(x);
        let mg = rf.add(x);
        scale = scale.max(x.abs());
        let cnt = i + 1;
        if cnt < 5 {
            continue;
        }
        if mg.0 < 1e-9 {
            rep.bump("streams_rounding_sensitive_from_some_step", 1);
            rep.bump("steps_decided", (cnt - 5) as u64);
            return;
        }
        let tol = (64.0 * cnt as f64 * U).max(1e-10) * scale;
        let fail = |rep: &mut Report, acc: &str, what: String| {
            let prefix: Vec<f64> = xs[..cnt.min(40)].to_vec();
            rep.violation(json!({"property": prop, "family": "qlong", "type": "Quantile", "embedding": shape,
                "history": {"shape": shape, "p": p, "seed": seed, "observations": cnt, "first_observations": prefix},
                "accessor": acc, "what": what, "signature": format!("{}|Quantile|{}", prop, acc)}));
        };
        rep.evaluations += 1;
        let got = qt.quantile();
        if !((got - rf.quantile_big()).abs() <= tol) {
            fail(rep, "quantile", format!("after {} observations quantile() = {} but P-square (Quantile.tla's Step in f64) gives {} (tolerance {:e})", cnt, fmt_f(got), fmt_f(rf.quantile_big()), tol));
            return;
        }
        if let Some(m) = markers(&qt) {
            rep.evaluations += 15;
            if m.n != rf.n {
                fail(rep, "positions", format!("after {} observations marker positions {:?} but P-square prescribes {:?}", cnt, m.n, rf.n));
                return;
            }
            if (0..5).any(|j| m.m[j] != rf.m[j]) {
                fail(rep, "desired positions", format!("after {} observations desired positions {:?} but P-square prescribes {:?}", cnt, m.m, rf.m));
                return;
            }
            if let Some(j) = (0..5).find(|&j| !((m.q[j] - rf.q[j]).abs() <= tol)) {
                fail(rep, "heights", format!("after {} observations marker {} has height {} but P-square prescribes {} (tolerance {:e})", cnt, j + 1, fmt_f(m.q[j]), fmt_f(rf.q[j]), tol));
                return;
            }
        }
    }
    rep.bump("streams_decided_to_the_end", 1);
    rep.bump("steps_decided", (xs.len().saturating_sub(4)) as u64);
}


/// implementation -> specification, one P-square step at a time (Trace_QStep.tla): the marker state of
/// the real estimator before and after every add from the sixth observation on, every number as the
/// exact dyadic rational it is.  TLC applies Quantile.tla's Step (over unbounded rationals) to the
/// pre-state and accepts the post-state or not.
pub fn record_qstep(path: &str, seed: u64, n: usize, rep: &mut Report) {
    use crate::tmoments::dyadic;
    use std::io::Write;
    let dy = |x: f64| -> serde_json::Value {
        let (s, l, e) = dyadic(x);
        json!({"m": [s, l], "e": e})
    };
    let mut rng = Xoshiro256PlusPlus::seed_from_u64(seed ^ 0x7173);
    let mut out = std::io::BufWriter::new(std::fs::File::create(path).unwrap());
    let ps = [0.0, 0.25, 0.5, 0.9, 0.99, 1.0, 0.1];
    let mut streams = shapes(&mut rng, n);
    // ties everywhere (small alphabet) and a stream of new minima: the cell search and the extreme markers
    streams.push(("ties", (0..n).map(|_| [0.1, 0.3, 0.7, 1.1][rng.random_range(0..4)]).collect()));
    streams.push(("decreasing", (0..n).map(|i| -(i as f64) * 0.37).collect()));
    for (k, (shape, xs)) in streams.iter().enumerate() {
        for (j, &p) in ps.iter().enumerate() {
            // every stream with three of the seven p
            if (k + j) % 7 > 2 {
                continue;
            }
            writeln!(out, "{}", json!({"op": "qnew", "p": dy(p), "shape": shape})).unwrap();
            let mut qt = Quantile::new(p);
            rep.behaviours += 1;
            rep.bump("traces", 1);
            for (i, &x) in xs.iter().enumerate() {
                let pre = if i >= 5 { markers(&qt) } else { None };
                let ok = std::panic::catch_unwind(std::panic::AssertUnwindSafe(|| qt.add(x))).is_ok();
                if !ok {
                    writeln!(out, "{}", json!({"op": "panic", "in": "add"})).unwrap();
                    break;
                }
                if let (Some(a), Some(b)) = (pre, markers(&qt)) {
                    let st = |m: &crate::quantile::Markers| json!({"q": m.q.iter().map(|&v| dy(v)).collect::<Vec<_>>(), "n": m.n, "m": m.m.iter().map(|&v| dy(v)).collect::<Vec<_>>()});
                    let est = qt.quantile();
                    let estv = if est.is_finite() { let mut v = dy(est); v["c"] = json!("fin"); v } else { json!({"c": "nonfinite"}) };
                    writeln!(out, "{}", json!({"op": "qstep", "x": dy(x), "pre": st(&a), "post": st(&b), "est": estv})).unwrap();
                    rep.evaluations += 1;
                } else if i >= 5 {
                    rep.bump("marker_state_unobservable", 1);
                }
            }
        }
    }
    out.flush().unwrap();
    rep.sample(json!({"family": "qstep-trace", "n": n, "p": ps}));
}
