//! Implementation -> specification: drive the real code with long / random / adversarial
//! workloads and log one ndjson event per API call for TLC to validate against the trace
//! specifications (spec/Trace_*.tla).  The recorder never judges: it logs what it observed
//! through the public API (and the public serde form); TLC accepts or rejects.

use crate::quantile::markers;
use crate::report::*;
use average::{Estimate, Quantile};
use rand::{Rng, SeedableRng};
use rand_xoshiro::Xoshiro256PlusPlus;
use serde_json::json;
use std::io::Write;

pub fn streams(rng: &mut Xoshiro256PlusPlus, n: usize) -> Vec<(&'static str, Vec<f64>)> {
    let mut v: Vec<(&'static str, Vec<f64>)> = Vec::new();
    v.push(("sorted", (0..n).map(|i| i as f64 * 0.5).collect()));
    v.push(("reverse-sorted", (0..n).map(|i| (n - i) as f64 * 0.5).collect()));
    v.push(("zig-zag", (0..n).map(|i| if i % 2 == 0 { i as f64 } else { -(i as f64) }).collect()));
    v.push(("trending", (0..n).map(|i| i as f64 * 0.01 + rng.random::<f64>()).collect()));
    v.push(("trending-down", (0..n).map(|i| -(i as f64) * 0.01 + rng.random::<f64>()).collect()));
    v.push(("heavy-duplicate", (0..n).map(|_| rng.random_range(0..4) as f64).collect()));
    v.push(("constant", (0..n).map(|_| 7.25).collect()));
    v.push(("uniform", (0..n).map(|_| rng.random::<f64>() * 100.0 - 50.0).collect()));
    v.push(("heavy-tail", (0..n).map(|_| { let u: f64 = rng.random::<f64>(); 1.0 / (u + 1e-9) }).collect()));
    v.push(("periodic", (0..n).map(|i| (i % 10) as f64).collect()));
    v.push(("paper", vec![0.02, 0.5, 0.74, 3.39, 0.83, 22.37, 10.15, 15.43, 38.62, 15.92, 34.60, 10.28, 1.47, 0.40, 0.05, 11.39, 0.27, 0.42, 0.09, 11.37]));
    v.push(("new-minima-then-maxima", (0..n).map(|i| if i < n / 2 { -(i as f64) } else { i as f64 }).collect()));
    v.push(("two-scales", (0..n).map(|i| if i % 7 == 0 { 1e12 * rng.random::<f64>() } else { rng.random::<f64>() }).collect()));
    v
}

pub fn record_quantile(path: &str, seed: u64, n: usize, rep: &mut Report) {
    let mut rng = Xoshiro256PlusPlus::seed_from_u64(seed);
    let mut out = std::io::BufWriter::new(std::fs::File::create(path).unwrap());
    let p32s = [0u32, 1, 4, 8, 16, 24, 31, 32];
    for bad in [-0.1, 1.0000000000000002, f64::NAN, f64::INFINITY, f64::NEG_INFINITY, 2.0, -1e-300] {
        let panicked = std::panic::catch_unwind(|| Quantile::new(bad)).is_err();
        writeln!(out, "{}", json!({"op": "new_invalid", "p": format!("{bad:e}"), "panicked": panicked})).unwrap();
        rep.evaluations += 1;
    }
    let all = streams(&mut rng, n);
    for (name, xs) in &all {
        // a different p for every stream, all of them over the run
        for &p32 in p32s.iter() {
            if xs.len() > 100 && (hash_str(name) + p32 as u64 + seed) % 3 != 0 {
                continue; // a third of the (stream, p) combinations per seed for long streams
            }
            let p = p32 as f64 / 32.0;
            let mut qt = Quantile::new(p);
            writeln!(out, "{}", json!({"op": "new", "p32": p32})).unwrap();
            rep.behaviours += 1;
            rep.nontrivial.insert(hash_str(&format!("{name}{p32}{seed}")));
            let mut lo = f64::INFINITY;
            let mut hi = f64::NEG_INFINITY;
            for (i, &x) in xs.iter().enumerate() {
                let pre = markers(&qt);
                qt.add(x);
                lo = lo.min(x);
                hi = hi.max(x);
                let est = qt.quantile();
                let inrange = est >= lo && est <= hi;
                let cnt = i + 1;
                rep.evaluations += 1;
                if cnt <= 5 {
                    writeln!(out, "{}", json!({"op": "small", "cnt": cnt, "len": qt.len(), "inrange": inrange})).unwrap();
                    continue;
                }
                let post = match markers(&qt) {
                    Some(m) => m,
                    None => {
                        rep.bump("unobservable_marker_state", 1);
                        continue;
                    }
                };
                let pre = pre.unwrap();
                let rank = pre.q.iter().filter(|&&h| h <= x).count();
                let sorted = post.q.windows(2).all(|w| w[0] <= w[1]);
                writeln!(
                    out,
                    "{}",
                    json!({"op": "add", "rank": rank, "pos": post.n, "cnt": cnt, "len": qt.len(),
                           "minok": post.q[0] == lo, "maxok": post.q[4] == hi, "sorted": sorted, "inrange": inrange})
                )
                .unwrap();
            }
            rep.sample(json!({"stream": name, "p": p, "length": xs.len(), "final_estimate": qt.quantile()}));
        }
    }
    out.flush().unwrap();
    rep.counters.insert("traces".into(), rep.behaviours);
}
