//! Implementation -> specification: drive the real code with long / random / adversarial
//! workloads and log one ndjson event per API call for TLC to validate against the trace
//! specifications (spec/Trace_*.tla).  The recorder never judges: it logs what it observed
//! through the public API (and the public serde form); TLC accepts or rejects.

use crate::quantile::markers;
use crate::report::*;
use average::{Estimate, Quantile};
use rand::{Rng, SeedableRng};
use rand_xoshiro::Xoshiro256PlusPlus;
use serde_json::json;
use std::io::Write;

pub fn streams(rng: &mut Xoshiro256PlusPlus, n: usize) -> Vec<(&'static str, Vec<f64>)> {
    let mut v: Vec<(&'static str, Vec<f64>)> = Vec::new();
    v.push(("sorted", (0..n).map(|i| i as f64 * 0.5).collect()));
    v.push(("reverse-sorted", (0..n).map(|i| (n - i) as f64 * 0.5).collect()));
    v.push(("zig-zag", (0..n).map(|i| if i % 2 == 0 { i as f64 } else { -(i as f64) }).collect()));
    v.push(("trending", (0..n).map(|i| i as f64 * 0.01 + rng.random::<f64>()).collect()));
    v.push(("trending-down", (0..n).map(|i| -(i as f64) * 0.01 + rng.random::<f64>()).collect()));
    v.push(("heavy-duplicate", (0..n).map(|_| rng.random_range(0..4) as f64).collect()));
    v.push(("constant", (0..n).map(|_| 0.1).collect()));
    v.push(("constant-dyadic", (0..n.min(200)).map(|_| 7.25).collect()));
    v.push(("full-mantissa-ties", (0..n).map(|_| [0.1, 0.3, 0.7, 1.1][rng.random_range(0..4)]).collect()));
    v.push(("mostly-one-value", (0..n).map(|i| if i % 17 == 3 { 0.3 } else { 1e-3 }).collect()));
    v.push(("uniform", (0..n).map(|_| rng.random::<f64>() * 100.0 - 50.0).collect()));
    v.push(("heavy-tail", (0..n).map(|_| { let u: f64 = rng.random::<f64>(); 1.0 / (u + 1e-9) }).collect()));
    v.push(("periodic", (0..n).map(|i| (i % 10) as f64).collect()));
    // one stream long enough for any periodic re-synchronisation an implementation might do
    let long_n = n.max(6000);
    v.push(("long-uniform", (0..long_n).map(|_| rng.random::<f64>() * 10.0).collect()));
    v.push(("paper", vec![0.02, 0.5, 0.74, 3.39, 0.83, 22.37, 10.15, 15.43, 38.62, 15.92, 34.60, 10.28, 1.47, 0.40, 0.05, 11.39, 0.27, 0.42, 0.09, 11.37]));
    v.push(("new-minima-then-maxima", (0..n).map(|i| if i < n / 2 { -(i as f64) } else { i as f64 }).collect()));
    v.push(("two-scales", (0..n).map(|i| if i % 7 == 0 { 1e12 * rng.random::<f64>() } else { rng.random::<f64>() }).collect()));
    v
}

pub fn record_quantile(path: &str, seed: u64, n: usize, rep: &mut Report) {
    let mut rng = Xoshiro256PlusPlus::seed_from_u64(seed);
    let mut out = std::io::BufWriter::new(std::fs::File::create(path).unwrap());
    // p = k/32 (exact desired positions: the position skeleton is validated by TLC) and, encoded
    // as 1000 + k, p = k/10 (not representable: only bookkeeping, invariants and the serde twin)
    let p32s = [0u32, 1, 4, 8, 16, 24, 31, 32, 1001, 1003, 1007, 1009];
    for bad in [-0.1, 1.0000000000000002, f64::NAN, f64::INFINITY, f64::NEG_INFINITY, 2.0, -1e-300, -5e-324, -1e-17, -2.7755575615628914e-17, -f64::MIN_POSITIVE] {
        let panicked = std::panic::catch_unwind(|| Quantile::new(bad)).is_err();
        writeln!(out, "{}", json!({"op": "new_invalid", "p": format!("{bad:e}"), "panicked": panicked})).unwrap();
        rep.evaluations += 1;
    }
    for good in [0.0, 1.0, 0.5, 0.1, 5e-324, 1.5e-323, f64::from_bits(0x0010_0000_0000_0001), f64::MIN_POSITIVE, 1e-300, 1.0 - 1.1102230246251565e-16, 0.9999] {
        let r = std::panic::catch_unwind(|| {
            let q = Quantile::new(good);
            (q.p().to_bits() == good.to_bits(), q.len(), q.is_empty())
        });
        let panicked = r.is_err();
        let (pe, l, e) = r.unwrap_or((false, 0, false));
        writeln!(out, "{}", json!({"op": "new_valid", "p": format!("{good:e}"), "panicked": panicked, "p_exact": pe, "len": l, "empty": e})).unwrap();
        rep.evaluations += 1;
    }
    let all = streams(&mut rng, n);
    for (name, xs) in &all {
        // a different p for every stream, all of them over the run
        for &p32 in p32s.iter() {
            if xs.len() > 100 && (hash_str(name) + p32 as u64 + seed) % 3 != 0 {
                continue; // a third of the (stream, p) combinations per seed for long streams
            }
            let dyadic = p32 < 1000;
            let p = if dyadic { p32 as f64 / 32.0 } else { (p32 - 1000) as f64 / 10.0 };
            // Default::default() is the median estimator; Clone is a stuttering step (below)
            let mut qt = if p32 == 16 { Quantile::default() } else { Quantile::new(p) };
            // C18 twin: fed the same stream, but serialised and restored (serde_json, lossless for
            // finite f64) before every observation; its serialised state must stay identical
            let mut twin = Quantile::new(p);
            writeln!(out, "{}", json!({"op": "new", "p32": if dyadic { p32 } else { 0 }, "dyadic": dyadic})).unwrap();
            rep.behaviours += 1;
            rep.nontrivial.insert(hash_str(&format!("{name}{p32}{seed}")));
            let mut lo = f64::INFINITY;
            let mut hi = f64::NEG_INFINITY;
            for (i, &x) in xs.iter().enumerate() {
                if i % 7 == 3 {
                    qt = qt.clone();
                }
                let pre = markers(&qt);
                // a panic of the code under test is logged as an event no specification action matches
                let step = std::panic::catch_unwind(std::panic::AssertUnwindSafe(|| {
                    qt.add(x);
                    let j = serde_json::to_string(&twin).unwrap();
                    twin = serde_json::from_str(&j).unwrap();
                    twin.add(x);
                    (qt.quantile(), twin.quantile().to_bits() == qt.quantile().to_bits())
                }));
                let (est, twin_est_equal) = match step {
                    Ok(r) => r,
                    Err(_) => {
                        writeln!(out, "{}", json!({"op": "panic", "stream": name, "p32": p32, "observation": i + 1})).unwrap();
                        break;
                    }
                };
                lo = lo.min(x);
                hi = hi.max(x);
                let inrange = est >= lo && est <= hi;
                let cnt = i + 1;
                rep.evaluations += 1;
                let twin_equal = serde_json::to_string(&twin).unwrap() == serde_json::to_string(&qt).unwrap() && twin_est_equal;
                if cnt <= 5 {
                    writeln!(out, "{}", json!({"op": "small", "cnt": cnt, "len": qt.len(), "inrange": inrange, "twin_equal": twin_equal})).unwrap();
                    continue;
                }
                let post = match markers(&qt) {
                    Some(m) => m,
                    None => {
                        rep.bump("unobservable_marker_state", 1);
                        continue;
                    }
                };
                let pre = pre.unwrap();
                let rank = pre.q.iter().filter(|&&h| h <= x).count();
                let sorted = post.q.windows(2).all(|w| w[0] <= w[1]);
                writeln!(
                    out,
                    "{}",
                    json!({"op": if dyadic { "add" } else { "add_nd" }, "rank": rank, "pos": post.n, "cnt": cnt, "len": qt.len(),
                           "minok": post.q[0] == lo, "maxok": post.q[4] == hi, "sorted": sorted, "inrange": inrange, "twin_equal": twin_equal})
                )
                .unwrap();
            }
            let fin = std::panic::catch_unwind(std::panic::AssertUnwindSafe(|| qt.quantile())).unwrap_or(f64::NAN);
            rep.sample(json!({"stream": name, "p": p, "length": xs.len(), "final_estimate": fin}));
        }
    }
    // many short streams over a small integer alphabet (ties, adjacent markers adjusting on the
    // same observation): the C15 flags and the position skeleton after every observation
    let shorts = if n >= 10_000 { 12_000 } else { 1_500 };
    for k in 0..shorts {
        let p32 = [8u32, 16, 24, 4, 28][k % 5];
        let p = p32 as f64 / 32.0;
        let mut qt = Quantile::new(p);
        writeln!(out, "{}", json!({"op": "new", "p32": p32, "dyadic": true})).unwrap();
        let (mut lo, mut hi) = (f64::INFINITY, f64::NEG_INFINITY);
        let len = 12 + k % 19;
        for i in 0..len {
            let x = rng.random_range(0..17) as f64;
            if i == len / 2 || i == 3 {
                qt = qt.clone();
            }
            let pre = markers(&qt);
            let step = std::panic::catch_unwind(std::panic::AssertUnwindSafe(|| {
                qt.add(x);
                qt.quantile()
            }));
            let est = match step {
                Ok(e) => e,
                Err(_) => {
                    writeln!(out, "{}", json!({"op": "panic", "stream": "short", "observation": i + 1})).unwrap();
                    break;
                }
            };
            lo = lo.min(x);
            hi = hi.max(x);
            rep.evaluations += 1;
            let inrange = est >= lo && est <= hi;
            let cnt = i + 1;
            if cnt <= 5 {
                writeln!(out, "{}", json!({"op": "small", "cnt": cnt, "len": qt.len(), "inrange": inrange, "twin_equal": true})).unwrap();
                continue;
            }
            let (pre, post) = match (pre, markers(&qt)) {
                (Some(a), Some(b)) => (a, b),
                _ => continue,
            };
            let rank = pre.q.iter().filter(|&&h| h <= x).count();
            writeln!(out, "{}", json!({"op": "add", "rank": rank, "pos": post.n, "cnt": cnt, "len": qt.len(), "minok": post.q[0] == lo, "maxok": post.q[4] == hi,
                "sorted": post.q.windows(2).all(|w| w[0] <= w[1]), "inrange": inrange, "twin_equal": true})).unwrap();
        }
        rep.behaviours += 1;
    }
    out.flush().unwrap();
    rep.counters.insert("traces".into(), rep.behaviours);
}

// ------------------------------------------------------------------------------- histograms

use crate::hist_types as ht;

use crate::rechist::record_hist_typed;

pub fn record_histogram(path: &str, seed: u64, n: usize, len: usize, rep: &mut Report) {
    let mut rng = Xoshiro256PlusPlus::seed_from_u64(seed ^ (len as u64) << 32);
    let mut out = std::io::BufWriter::new(std::fs::File::create(path).unwrap());
    let runs = 8;
    for r in 0..runs {
        rep.behaviours += 1;
        rep.nontrivial.insert(hash_str(&format!("hist{len}{seed}{r}")));
        match len {
            2 => record_hist_typed::<ht::h2::Histogram>(&mut out, &mut rng, n / runs, rep),
            3 => record_hist_typed::<ht::h3::Histogram>(&mut out, &mut rng, n / runs, rep),
            10 => {
                if r % 2 == 0 {
                    record_hist_typed::<average::Histogram10>(&mut out, &mut rng, n / runs, rep)
                } else {
                    record_hist_typed::<ht::h10::Histogram>(&mut out, &mut rng, n / runs, rep)
                }
            }
            100 => record_hist_typed::<ht::h100::Histogram>(&mut out, &mut rng, n / runs, rep),
            _ => panic!("no recorder for LEN {len}"),
        }
    }
    rep.sample(json!({"family": "histogram", "len": len, "runs": runs, "events_per_run": n / runs}));
    out.flush().unwrap();
    rep.counters.insert("traces".into(), rep.behaviours);
}

pub fn ensure_dir(path: &str) {
    if let Some(d) = std::path::Path::new(path).parent() {
        std::fs::create_dir_all(d).ok();
    }
}

// ------------------------------------------------------------------------ length bookkeeping
use crate::pairs::PairT;
use crate::types::{Acc, MomT};

trait LenT: Clone {
    const NAME: &'static str;
    fn fresh(alt: bool) -> Self;
    fn add_random(&mut self, rng: &mut Xoshiro256PlusPlus);
    fn merge_from(&mut self, o: &Self);
    fn len_empty(&self) -> (f64, bool);
}

struct M<T>(T);
impl<T: MomT> Clone for M<T> {
    fn clone(&self) -> Self {
        M(self.0.clone())
    }
}
impl<T: MomT> LenT for M<T> {
    const NAME: &'static str = T::NAME;
    fn fresh(alt: bool) -> Self {
        M(if alt { T::default_() } else { T::new() })
    }
    fn add_random(&mut self, rng: &mut Xoshiro256PlusPlus) {
        self.0.add(rng.random::<f64>() * 100.0 - 30.0)
    }
    fn merge_from(&mut self, o: &Self) {
        self.0.merge(&o.0)
    }
    fn len_empty(&self) -> (f64, bool) {
        let mut v = Vec::new();
        self.0.observe(&mut v);
        let get = |a: Acc| v.iter().find(|x| x.0 == a).and_then(|x| x.1).unwrap_or(f64::NAN);
        (get(Acc::Len), get(Acc::IsEmpty) == 1.0)
    }
}

struct P<T>(T);
impl<T: PairT> Clone for P<T> {
    fn clone(&self) -> Self {
        P(self.0.clone())
    }
}
impl<T: PairT> LenT for P<T> {
    const NAME: &'static str = T::NAME;
    fn fresh(alt: bool) -> Self {
        P(if alt { T::default_() } else { T::new() })
    }
    fn add_random(&mut self, rng: &mut Xoshiro256PlusPlus) {
        let w = [0.0, 1.0, 0.25, 7.0][rng.random_range(0..4)];
        self.0.add(rng.random::<f64>() * 10.0, w)
    }
    fn merge_from(&mut self, o: &Self) {
        self.0.merge(&o.0)
    }
    fn len_empty(&self) -> (f64, bool) {
        let mut v = Vec::new();
        self.0.observe(&mut v);
        let get = |a: &str| v.iter().find(|x| x.0 == a).and_then(|x| x.1).unwrap_or(f64::NAN);
        (get("len"), get("is_empty") == 1.0)
    }
}

fn record_len_typed<T: LenT>(out: &mut impl Write, rng: &mut Xoshiro256PlusPlus, n: usize, rep: &mut Report) {
    writeln!(out, "{}", json!({"op": "restart", "type": T::NAME})).unwrap();
    let k = 5usize;
    let mut objs: Vec<Option<T>> = (0..k).map(|_| None).collect();
    rep.behaviours += 1;
    rep.nontrivial.insert(hash_str(&format!("len{}{}", T::NAME, n)));
    let mut events = 0;
    while events < n {
        let i = rng.random_range(0..k);
        let c = rng.random_range(0..100);
        events += 1;
        rep.evaluations += 1;
        if objs[i].is_none() || c < 5 {
            let o = T::fresh(c % 2 == 0);
            let (l, e) = o.len_empty();
            writeln!(out, "{}", json!({"op": "new", "id": i, "len": l as u64, "empty": e})).unwrap();
            objs[i] = Some(o);
        } else if c < 60 {
            let o = objs[i].as_mut().unwrap();
            o.add_random(rng);
            let (l, e) = o.len_empty();
            writeln!(out, "{}", json!({"op": "add", "id": i, "len": l as u64, "empty": e})).unwrap();
        } else if c < 85 {
            let j = rng.random_range(0..k);
            if j == i || objs[j].is_none() {
                events -= 1;
                continue;
            }
            let src = objs[j].clone().unwrap();
            let o = objs[i].as_mut().unwrap();
            // merge with a reference to the live source, then look at both; a panic of the code
            // under test becomes an event no specification action matches
            let merged = std::panic::catch_unwind(std::panic::AssertUnwindSafe(|| o.merge_from(objs_ref(&src))));
            if merged.is_err() {
                writeln!(out, "{}", json!({"op": "panic", "in": "merge", "dst": i, "src": j, "type": T::NAME})).unwrap();
                objs[i] = None;
                continue;
            }
            let (l, e) = o.len_empty();
            let (sl, _) = src.len_empty();
            if l > 1e8 {
                // lengths double with every self-similar merge; start over long before TLC's 32-bit integers
                objs[i] = None;
            }
            writeln!(out, "{}", json!({"op": "merge", "dst": i, "src": j, "len": l as u64, "srclen": sl as u64, "empty": e})).unwrap();
        } else {
            let j = rng.random_range(0..k);
            if j == i || objs[j].is_none() {
                events -= 1;
                continue;
            }
            let src = objs[j].clone();
            if events % 2 == 1 {
                objs[i].clone_from(&src);
            } else {
                objs[i] = src;
            }
            let (l, _) = objs[i].as_ref().unwrap().len_empty();
            writeln!(out, "{}", json!({"op": "clone", "dst": i, "src": j, "len": l as u64})).unwrap();
        }
    }
}

fn objs_ref<T>(t: &T) -> &T {
    t
}

pub fn record_len(path: &str, seed: u64, n: usize, rep: &mut Report) {
    use crate::types::*;
    let mut rng = Xoshiro256PlusPlus::seed_from_u64(seed);
    let mut out = std::io::BufWriter::new(std::fs::File::create(path).unwrap());
    record_len_typed::<M<average::Mean>>(&mut out, &mut rng, n, rep);
    record_len_typed::<M<average::Variance>>(&mut out, &mut rng, n, rep);
    record_len_typed::<M<average::Skewness>>(&mut out, &mut rng, n, rep);
    record_len_typed::<M<average::Kurtosis>>(&mut out, &mut rng, n, rep);
    record_len_typed::<M<average::Moments4>>(&mut out, &mut rng, n, rep);
    record_len_typed::<M<m6::M6>>(&mut out, &mut rng, n, rep);
    record_len_typed::<M<m10::M10>>(&mut out, &mut rng, n, rep);
    record_len_typed::<P<average::WeightedMeanWithError>>(&mut out, &mut rng, n, rep);
    record_len_typed::<P<average::Covariance>>(&mut out, &mut rng, n, rep);
    rep.sample(json!({"family": "len", "types": 9, "events_per_type": n}));
    out.flush().unwrap();
    rep.counters.insert("traces".into(), rep.behaviours);
}

// ------------------------------------------------------------------------------------------
// Min / Max histories for Trace_MinMax.tla
// ------------------------------------------------------------------------------------------

const TRACE_INF: i64 = 1 << 30;

/// (value fed to the code, logged integer, logged NaN flag)
fn mm_value(rng: &mut Xoshiro256PlusPlus, regime: usize) -> (f64, i64, bool) {
    let c = rng.random_range(0..100);
    if c < 6 {
        return (if c % 2 == 0 { f64::NAN } else { -f64::NAN }, 0, true);
    }
    if c < 8 {
        return (f64::INFINITY, TRACE_INF, false);
    }
    if c < 10 {
        return (f64::NEG_INFINITY, -TRACE_INF, false);
    }
    if c < 13 {
        return (-0.0, 0, false);
    }
    let v: i64 = match regime % 4 {
        0 => rng.random_range(-3..=3),                   // ties everywhere
        1 => rng.random_range(-1_000_000..=1_000_000),   // spread out
        2 => -(rng.random_range(0..=1000) as i64),       // all non-positive (the sign corner of max)
        _ => rng.random_range(1..=1000),                 // all positive (the sign corner of min)
    };
    (v as f64, v, false)
}

fn mm_log(x: f64) -> serde_json::Value {
    // what the real object reports, as the integer the trace specification compares: +-inf are
    // +-2^30, every finite value fed is an integer
    if x == f64::INFINITY {
        json!(TRACE_INF)
    } else if x == f64::NEG_INFINITY {
        json!(-TRACE_INF)
    } else if x.is_finite() && x == x.trunc() && x.abs() < 1e9 {
        json!(x as i64)
    } else {
        // NaN, a fraction, a huge value: an integer no specification value equals (TLC compares
        // integers only with integers), so that the event is rejected rather than unreadable
        json!(TRACE_INF + 7)
    }
}

pub fn record_minmax(path: &str, seed: u64, n: usize, with_serde: bool, rep: &mut Report) {
    use average::{Max, Merge, Min};
    let mut rng = Xoshiro256PlusPlus::seed_from_u64(seed);
    let mut out = std::io::BufWriter::new(std::fs::File::create(path).unwrap());
    let k = 6usize;
    for regime in 0..8usize {
        writeln!(out, "{}", json!({"op": "restart", "regime": regime})).unwrap();
        rep.behaviours += 1;
        rep.nontrivial.insert(hash_str(&format!("minmax{}{}", regime, n)));
        let mut objs: Vec<Option<(Min, Max)>> = (0..k).map(|_| None).collect();
        let mut events = 0;
        while events < n {
            let i = rng.random_range(0..k);
            let c = rng.random_range(0..100);
            events += 1;
            rep.evaluations += 2;
            let r = std::panic::catch_unwind(std::panic::AssertUnwindSafe(|| {
                let mut line = None;
                if objs[i].is_none() || c < 6 {
                    let o = if c % 2 == 0 { (Min::new(), Max::new()) } else { (Min::default(), Max::default()) };
                    line = Some(json!({"op": "new", "id": i, "mn": mm_log(o.0.min()), "mx": mm_log(o.1.max())}));
                    objs[i] = Some(o);
                } else if c < 10 {
                    let (x, r, nan) = mm_value(&mut rng, regime);
                    if !nan {
                        let o = (Min::from_value(x), Max::from_value(x));
                        line = Some(json!({"op": "from", "id": i, "r": r, "mn": mm_log(o.0.min()), "mx": mm_log(o.1.max())}));
                        objs[i] = Some(o);
                    }
                } else if c < 50 {
                    let (x, r, nan) = mm_value(&mut rng, regime);
                    let o = objs[i].as_mut().unwrap();
                    o.0.add(x);
                    o.1.add(x);
                    line = Some(json!({"op": "add", "id": i, "nan": nan, "r": r, "mn": mm_log(o.0.min()), "mx": mm_log(o.1.max())}));
                } else if c < 62 {
                    // a batch through FromIterator (fresh) or Extend (Min; Max has no Extend impl,
                    // its batch goes through add)
                    // mostly short, now and then long enough for a blocked / unrolled loop to wrap around
                    let len = if c % 5 == 0 { rng.random_range(8..40) } else { rng.random_range(0..8) };
                    let vals: Vec<(f64, i64, bool)> = (0..len).map(|_| mm_value(&mut rng, regime)).collect();
                    let xs: Vec<f64> = vals.iter().map(|v| v.0).collect();
                    let fresh = c % 2 == 0;
                    let by_ref = c % 3 == 0;
                    // every fourth fresh batch is collected from a PARALLEL iterator (rayon fold / reduce with
                    // one-element leaves): the same meaning, the extreme of the non-NaN values (C14, C19)
                    let parallel = fresh && c % 4 == 0;
                    let o = if parallel {
                        use rayon::prelude::*;
                        if by_ref {
                            (xs.par_iter().with_max_len(1).collect::<Min>(), xs.par_iter().with_max_len(1).collect::<Max>())
                        } else {
                            (xs.clone().into_par_iter().with_max_len(1).collect::<Min>(), xs.clone().into_par_iter().with_max_len(1).collect::<Max>())
                        }
                    } else if fresh && c % 7 == 1 {
                        // through iterators that do not know their length (a filter that keeps everything,
                        // chunks flattened again): the meaning is the same for loop
                        if by_ref {
                            (xs.iter().filter(|x| x == x || x != x).collect::<Min>(), xs.chunks(2).flatten().collect::<Max>())
                        } else {
                            (xs.chunks(2).flatten().copied().collect::<Min>(), xs.iter().copied().filter(|x| x == x || x != x).collect::<Max>())
                        }
                    } else if fresh {
                        if by_ref {
                            (xs.iter().collect::<Min>(), xs.iter().collect::<Max>())
                        } else {
                            (xs.iter().copied().collect::<Min>(), xs.iter().copied().collect::<Max>())
                        }
                    } else {
                        let mut o = objs[i].clone().unwrap();
                        if by_ref && c % 7 == 2 {
                            o.0.extend(xs.chunks(3).flatten());
                        } else if by_ref {
                            o.0.extend(xs.iter());
                        } else if c % 7 == 3 {
                            o.0.extend(xs.iter().copied().filter(|x| x == x || x != x));
                        } else {
                            o.0.extend(xs.iter().copied());
                        }
                        for &x in &xs {
                            o.1.add(x);
                        }
                        o
                    };
                    let lx: Vec<serde_json::Value> = vals.iter().map(|v| json!({"nan": v.2, "r": v.1})).collect();
                    line = Some(json!({"op": "batch", "id": i, "fresh": fresh, "xs": lx, "mn": mm_log(o.0.min()), "mx": mm_log(o.1.max())}));
                    objs[i] = Some(o);
                } else if c < 82 {
                    let j = rng.random_range(0..k);
                    if j != i && objs[j].is_some() {
                        let src = objs[j].clone().unwrap();
                        {
                            let o = objs[i].as_mut().unwrap();
                            let s = objs_ref(&src);
                            o.0.merge(&s.0);
                            o.1.merge(&s.1);
                        }
                        let o = objs[i].as_ref().unwrap();
                        line = Some(json!({"op": "merge", "dst": i, "src": j, "mn": mm_log(o.0.min()), "mx": mm_log(o.1.max()),
                                           "smn": mm_log(src.0.min()), "smx": mm_log(src.1.max())}));
                    }
                } else if c < 92 {
                    let j = rng.random_range(0..k);
                    if j != i && objs[j].is_some() {
                        let src = objs[j].clone();
                        if c % 2 == 1 {
                            objs[i].clone_from(&src);
                        } else {
                            objs[i] = src;
                        }
                        let o = objs[i].as_ref().unwrap();
                        line = Some(json!({"op": "clone", "dst": i, "src": j, "mn": mm_log(o.0.min()), "mx": mm_log(o.1.max())}));
                    }
                } else if with_serde {
                    // Checkpoint is a (stuttering) action of MinMax.tla like of every family
                    // specification, so recorded behaviours contain it under every property.
                    // JSON cannot carry +-inf: round trip only objects with finite fields
                    let o = objs[i].as_ref().unwrap();
                    if o.0.min().is_finite() && o.1.max().is_finite() {
                        let rm: Min = serde_json::from_str(&serde_json::to_string(&o.0).unwrap()).unwrap();
                        let rx: Max = serde_json::from_str(&serde_json::to_string(&o.1).unwrap()).unwrap();
                        line = Some(json!({"op": "serde", "id": i, "mn": mm_log(rm.min()), "mx": mm_log(rx.max())}));
                        objs[i] = Some((rm, rx));
                    }
                }
                line
            }));
            match r {
                Ok(Some(line)) => writeln!(out, "{}", line).unwrap(),
                Ok(None) => events -= 1,
                Err(_) => {
                    writeln!(out, "{}", json!({"op": "panic", "id": i})).unwrap();
                    objs[i] = None;
                }
            }
        }
    }
    rep.sample(json!({"family": "minmax-trace", "regimes": 8, "events_per_regime": n}));
    out.flush().unwrap();
    rep.counters.insert("traces".into(), rep.behaviours);
}
