//! `Step` of spec/Quantile.tla evaluated in f64 ("qref"), for streams far longer than the exact
//! rationals of the specification can follow (TLC's integers overflow after about nine
//! observations, i128 after about fifteen).
//!
//! It is a line-by-line transcription of Init / AddSmall / FirstShift / Extremes / Parabolic /
//! Linear / MoveDir / AdjustOne / Step / QuantileOf.  It is bound to the specification by a
//! cross-check on every behaviour TLC generates (quantile.rs, counted as `oracle_crosschecks`): its
//! positions and desired positions must equal the specification's exactly and its heights must
//! agree with the exact rationals within the C05 tolerance, unless the specification flags a tie.
//!
//! Every step also reports its *margin*: how close any comparison the step makes came to a tie,
//! relative to the larger of the two numbers compared.  f64 evaluation order may legitimately differ between qref and the
//! code under test, so a step is only decided where no comparison is within 1e-9 of flipping.

#[derive(Clone, Debug)]
pub struct QRef {
    pub p: f64,
    pub cnt: usize,
    pub q: [f64; 5],
    pub n: [i64; 5],
    pub m: [f64; 5],
    pub dm: [f64; 5],
}

/// smallest relative distance from a tie among the comparisons of the last step
#[derive(Clone, Copy, Debug)]
pub struct Margin(pub f64);

impl QRef {
    pub fn new(p: f64) -> QRef {
        QRef {
            p,
            cnt: 0,
            q: [0.0; 5],
            n: [1, 2, 3, 4, 5],
            // Des0(p) and Dm(p)
            m: [1.0, 1.0 + 2.0 * p, 1.0 + 4.0 * p, 3.0 + 2.0 * p, 5.0],
            dm: [0.0, p / 2.0, p, (1.0 + p) / 2.0, 1.0],
        }
    }

    fn parabolic(h: &[f64; 5], n: &[i64; 5], i: usize, s: i64) -> f64 {
        let sf = s as f64;
        h[i] + sf / ((n[i + 1] - n[i - 1]) as f64)
            * ((h[i + 1] - h[i]) * ((n[i] - n[i - 1] + s) as f64) / ((n[i + 1] - n[i]) as f64)
                + (h[i] - h[i - 1]) * ((n[i + 1] - n[i] - s) as f64) / ((n[i] - n[i - 1]) as f64))
    }

    fn linear(h: &[f64; 5], n: &[i64; 5], i: usize, s: i64) -> f64 {
        let j = (i as i64 + s) as usize;
        h[i] + (h[j] - h[i]) * (s as f64) / ((n[j] - n[i]) as f64)
    }

    fn move_dir(n: &[i64; 5], m: &[f64; 5], i: usize) -> i64 {
        let d = m[i] - n[i] as f64;
        if d >= 1.0 && n[i + 1] - n[i] > 1 {
            1
        } else if d <= -1.0 && n[i - 1] - n[i] < -1 {
            -1
        } else {
            0
        }
    }

    /// one observation; returns the margin of the step (infinite in the small phase)
    pub fn add(&mut self, x: f64) -> Margin {
        if self.cnt < 5 {
            self.q[self.cnt] = x;
            self.cnt += 1;
            if self.cnt == 5 {
                self.q.sort_by(|a, b| a.partial_cmp(b).unwrap());
            }
            return Margin(f64::INFINITY);
        }
        let mut margin = f64::INFINITY;
        let mut near = |a: f64, b: f64| {
            let r = (a - b).abs() / a.abs().max(b.abs()).max(f64::MIN_POSITIVE);
            if r < margin {
                margin = r;
            }
        };
        // B1: FirstShift and Extremes
        let h = self.q;
        for i in 0..5 {
            near(x, h[i]);
        }
        let k1 = if x < h[0] {
            1
        } else if x < h[1] {
            1
        } else if x < h[2] {
            2
        } else if x < h[3] {
            3
        } else {
            4
        };
        let mut h1 = h;
        if x < h[0] {
            h1[0] = x;
        } else if h[4] < x {
            h1[4] = x;
        }
        // B2
        let mut n1 = self.n;
        for i in k1..5 {
            n1[i] += 1;
        }
        let mut m1 = self.m;
        for i in 0..5 {
            m1[i] += self.dm[i];
        }
        // B3
        for i in 1..4 {
            // (desired positions are exact for dyadic p below 2^53 observations: no margin needed;
            // the long-stream job only uses dyadic p)
            let s = Self::move_dir(&n1, &m1, i);
            if s != 0 {
                let qn = Self::parabolic(&h1, &n1, i, s);
                near(qn, h1[i - 1]);
                near(qn, h1[i + 1]);
                let hv = if h1[i - 1] < qn && qn < h1[i + 1] { qn } else { Self::linear(&h1, &n1, i, s) };
                h1[i] = hv;
                n1[i] += s;
            }
        }
        self.q = h1;
        self.n = n1;
        self.m = m1;
        self.cnt += 1;
        Margin(margin)
    }

    /// QuantileOf once five observations are in
    pub fn quantile_big(&self) -> f64 {
        self.q[2]
    }
}
