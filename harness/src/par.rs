//! C19: parallel collection under real rayon schedules.
//!
//! * `record_rayon`: a Probe type (a real Kurtosis + Min + Max behind a logging wrapper) on which
//!   the repository's exported `impl_from_par_iterator!` macro is instantiated, so the macro text
//!   under test drives it on real thread pools.  Every new / add / merge is logged, inside the
//!   call, under one mutex (a total order consistent with every object's own history: an object
//!   is owned by one thread at a time and hand-offs synchronise).  TLC validates the log against
//!   Rayon.tla (Trace_Rayon).
//! * `direct_rayon`: collect::<T>() on every supported real type under many pools / splitting
//!   limits / repetitions: len exact, min/max exact, statistics within the envelope of the exact
//!   (i128, definitional) statistics of the data; run-to-run spread within the envelope.

use crate::exact::*;
use crate::report::*;
use crate::types::*;
use average::{Kurtosis, Max, Min};
use rand::{Rng, SeedableRng};
use rand_xoshiro::Xoshiro256PlusPlus;
use rayon::prelude::*;
use serde_json::{json, Value};
use std::io::Write;

/// The Probe lives in its own module so that only `average`'s traits are in scope where the
/// macro under test expands.
pub mod probe {
    use average::{Estimate, Kurtosis, Max, Merge, Min};
    use serde_json::{json, Value};
    use std::sync::atomic::{AtomicU64, Ordering};
    use std::sync::Mutex;

    static NEXT_ID: AtomicU64 = AtomicU64::new(1);
    pub static LOG: Mutex<Vec<Value>> = Mutex::new(Vec::new());

    #[derive(Clone)]
    pub struct Probe {
        pub id: u64,
        pub k: Kurtosis,
        pub mn: Min,
        pub mx: Max,
    }

    impl Probe {
        pub fn new() -> Probe {
            let id = NEXT_ID.fetch_add(1, Ordering::SeqCst);
            let p = Probe { id, k: Kurtosis::new(), mn: Min::new(), mx: Max::new() };
            LOG.lock().unwrap().push(json!({"op": "par_new", "id": id}));
            p
        }
        pub fn add(&mut self, x: f64) {
            self.k.add(x);
            self.mn.add(x);
            self.mx.add(x);
            // the item's index is its value (the probe input is 0, 1, 2, ...)
            LOG.lock().unwrap().push(json!({"op": "par_add", "id": self.id, "idx": x as u64}));
        }
    }

    impl Merge for Probe {
        fn merge(&mut self, other: &Probe) {
            self.k.merge(&other.k);
            self.mn.merge(&other.mn);
            self.mx.merge(&other.mx);
            LOG.lock().unwrap().push(json!({"op": "par_merge", "dst": self.id, "src": other.id}));
        }
    }

    // the macro under test
    average::impl_from_par_iterator!(Probe);

}
use probe::{Probe, LOG};

fn pool(threads: usize) -> rayon::ThreadPool {
    rayon::ThreadPoolBuilder::new().num_threads(threads).build().unwrap()
}

pub fn record_rayon(path: &str, seed: u64, reps: usize, rep: &mut Report) {
    let mut out = std::io::BufWriter::new(std::fs::File::create(path).unwrap());
    let mut rng = Xoshiro256PlusPlus::seed_from_u64(seed);
    let mut schedules = std::collections::HashSet::new();
    let ns = [0usize, 1, 2, 3, 4, 5, 7, 8, 12, 16, 33, 100];
    for &threads in &[1usize, 2, 3, 4, 8, 16] {
        let p = pool(threads);
        for &n in &ns {
            for &(min_len, max_len) in &[(1usize, usize::MAX), (1, 1), (1, 3), (2, 5), (4, usize::MAX)] {
                for r in 0..reps {
                    let by_ref = (r + n) % 2 == 0;
                    let v: Vec<f64> = (0..n).map(|i| i as f64).collect();
                    LOG.lock().unwrap().clear();
                    // a little noise so that work stealing varies between repetitions
                    let spin = rng.random_range(0..3);
                    let res: Probe = match std::panic::catch_unwind(std::panic::AssertUnwindSafe(|| p.install(|| {
                        if spin > 0 {
                            rayon::join(|| std::thread::yield_now(), || std::thread::yield_now());
                        }
                        if by_ref {
                            v.par_iter().with_min_len(min_len).with_max_len(max_len).collect()
                        } else {
                            v.clone().into_par_iter().with_min_len(min_len).with_max_len(max_len).collect()
                        }
                    }))) {
                        Ok(r) => r,
                        Err(_) => {
                            writeln!(out, "{}", json!({"op": "run", "n": n})).unwrap();
                            writeln!(out, "{}", json!({"op": "panic", "n": n, "threads": threads})).unwrap();
                            rep.behaviours += 1;
                            continue;
                        }
                    };
                    let seq: Kurtosis = v.iter().collect();
                    let smn: Min = v.iter().collect();
                    let smx: Max = v.iter().collect();
                    let events: Vec<Value> = LOG.lock().unwrap().drain(..).collect();
                    // schedule shape: the sequence of ops with ids renumbered in order of appearance
                    let mut ren = std::collections::HashMap::new();
                    let mut shape = String::new();
                    for e in &events {
                        let mut id = |k: &str| -> usize {
                            let raw = e[k].as_u64().unwrap();
                            let nx = ren.len();
                            *ren.entry(raw).or_insert(nx)
                        };
                        match e["op"].as_str().unwrap() {
                            "par_new" => shape += &format!("n{};", id("id")),
                            "par_add" => shape += &format!("a{}:{};", id("id"), e["idx"]),
                            _ => shape += &format!("m{}<{};", id("dst"), id("src")),
                        }
                    }
                    if schedules.insert(hash_str(&format!("{n}|{shape}"))) {
                        rep.nontrivial.insert(hash_str(&format!("{n}|{shape}")));
                    }
                    writeln!(out, "{}", json!({"op": "run", "n": n, "threads": threads, "min_len": min_len, "max_len": if max_len == usize::MAX { 0 } else { max_len }, "by_ref": by_ref})).unwrap();
                    for e in &events {
                        writeln!(out, "{}", e).unwrap();
                        rep.evaluations += 1;
                    }
                    let extremes_equal = bits(res.mn.min()) == bits(smn.min()) && bits(res.mx.max()) == bits(smx.max());
                    writeln!(out, "{}", json!({"op": "par_return", "id": res.id, "len": res.k.len(), "seqlen": seq.len(), "extremes_equal": extremes_equal})).unwrap();
                    rep.behaviours += 1;
                    if rep.samples.len() < 3 && n == 5 && threads == 4 {
                        rep.sample(json!({"n": n, "threads": threads, "min_len": min_len, "max_len": max_len as f64, "events": events}));
                    }
                }
            }
        }
    }
    out.flush().unwrap();
    rep.counters.insert("traces".into(), rep.behaviours);
    rep.counters.insert("distinct_schedules_observed".into(), schedules.len() as u64);
}

// ------------------------------------------------------------------------------ direct runs
fn viol(rep: &mut Report, ty: &str, e: &Embedding, acc: &str, what: String, detail: Value) {
    rep.violation(json!({
        "property": "C19", "family": "rayon", "type": ty, "embedding": e.name,
        "history": detail, "accessor": acc, "what": what,
        "signature": format!("C19|{}|{}", ty, acc),
    }));
}

struct Truth {
    n: f64,
    mean: Rat,
    cm: Vec<Rat>, // central moments 0..=order
    abs_cm: Vec<f64>,
    sigma_v: f64,
    vmin: i64,
    vmax: i64,
}

fn truth(data: &[i64], order: u32) -> Truth {
    let b = Bag(data);
    let n = data.len() as f64;
    let cm: Vec<Rat> = (0..=order).map(|p| if p < 2 { Rat::int(1 - p as i128) } else { b.central_moment(p) }).collect();
    let abs_cm: Vec<f64> = (0..=order).map(|p| b.abs_central_sum(p).to_f64() / n).collect();
    Truth { n, mean: b.mean(), sigma_v: b.central_moment(2).to_f64().sqrt(), cm, abs_cm, vmin: b.min(), vmax: b.max() }
}

fn check_type<T: MomT>(data: &[i64], xs: &[f64], e: &Embedding, t: &Truth, cfg: &Value, by_ref: bool, rep: &mut Report, spread: &mut Vec<Vec<f64>>) {
    let (min_len, max_len) = (cfg["min_len"].as_u64().unwrap_or(1) as usize, cfg["max_len"].as_u64().map(|x| x as usize).unwrap_or(usize::MAX));
    let got: T = if let Some(layout) = cfg["adaptor"].as_u64() {
        T::par_collect_adaptor(xs, layout as usize, max_len, by_ref)
    } else if max_len != usize::MAX || min_len != 1 {
        T::par_collect_limits(xs, min_len, max_len, by_ref)
    } else if by_ref {
        T::par_collect_ref(xs)
    } else {
        T::par_collect_val(xs)
    };
    let seq: T = T::collect_ref(xs);
    let mut o = Vec::new();
    got.observe(&mut o);
    let mut so = Vec::new();
    seq.observe(&mut so);
    rep.replays += 1;
    let n = t.n;
    let x_max = e.x(t.vmin).abs().max(e.x(t.vmax).abs());
    let sigma = e.b * t.sigma_v;
    let kappa = 1.0 + x_max / sigma;
    let mut vals = Vec::new();
    for ((acc, v), (_, sv)) in o.iter().zip(so.iter()) {
        let v = match v {
            Some(v) => *v,
            None => {
                if sv.is_some() {
                    viol(rep, T::NAME, e, &acc.name(), "accessor panicked on the parallel result only".into(), cfg.clone());
                }
                continue;
            }
        };
        vals.push(v);
        rep.evaluations += 1;
        match acc {
            Acc::Len => {
                if v != data.len() as f64 {
                    viol(rep, T::NAME, e, "len", format!("parallel len() = {} but the input has {} items", v, data.len()), cfg.clone());
                }
            }
            Acc::IsEmpty => {
                if v != (data.is_empty() as u8 as f64) {
                    viol(rep, T::NAME, e, "is_empty", "wrong is_empty()".into(), cfg.clone());
                }
            }
            _ if data.len() < 2 || t.sigma_v == 0.0 => {
                // sentinel rows / constant data: bit-equal to the sequential result
                if bits(v) != bits(sv.unwrap_or(f64::NAN)) && data.len() < 2 {
                    viol(rep, T::NAME, e, &acc.name(), format!("parallel {} vs sequential {:?} on a sample of size {}", fmt_f(v), sv, data.len()), cfg.clone());
                }
            }
            _ if !(kappa <= 1e12) => rep.bump("skipped_kappa_gt_1e12", 1),
            Acc::Mean => {
                let r = t.mean.to_f64();
                let d = (v - e.a) - e.b * r;
                let tol = 8.0 * n * kappa * U * sigma + 4.0 * U * (e.a + e.b * r).abs();
                if !(d.abs() <= tol) {
                    viol(rep, T::NAME, e, "mean", format!("parallel mean {} off the exact mean by {:e} > envelope {:e}", fmt_f(v), d.abs(), tol), cfg.clone());
                }
            }
            Acc::PVar | Acc::SVar | Acc::Cm(2) => {
                let mut s = e.b * e.b * t.cm[2].to_f64();
                if *acc == Acc::SVar {
                    s *= n / (n - 1.0);
                }
                let tol = 16.0 * n * kappa * U * s + 4.0 * U * s;
                if !((v - s).abs() <= tol) {
                    viol(rep, T::NAME, e, &acc.name(), format!("parallel {} = {} but the exact value is {} (envelope {:e})", acc.name(), fmt_f(v), fmt_f(s), tol), cfg.clone());
                }
            }
            Acc::Skew if t.cm.len() > 3 => {
                let s = t.cm[3].to_f64() / t.sigma_v.powi(3);
                let tol = 32.0 * n * kappa * U * (t.abs_cm[3] / t.sigma_v.powi(3)) + 4.0 * U * s.abs();
                if !((v - s).abs() <= tol) {
                    viol(rep, T::NAME, e, "skewness", format!("parallel skewness {} but exact {} (envelope {:e})", fmt_f(v), fmt_f(s), tol), cfg.clone());
                }
            }
            Acc::Kurt if t.cm.len() > 4 => {
                let m4s4 = t.cm[4].to_f64() / t.sigma_v.powi(4);
                let s = m4s4 - 3.0;
                let tol = 32.0 * n * kappa * U * m4s4 + 4.0 * U * s.abs();
                if !((v - s).abs() <= tol) {
                    viol(rep, T::NAME, e, "kurtosis", format!("parallel kurtosis {} but exact {} (envelope {:e})", fmt_f(v), fmt_f(s), tol), cfg.clone());
                }
            }
            Acc::Cm(p) if *p >= 3 && (*p as usize) < t.cm.len() => {
                let pw = e.b.powi(*p as i32);
                let s = pw * t.cm[*p as usize].to_f64();
                let tol = 16.0 * (*p as f64) * n * kappa * U * pw * t.abs_cm[*p as usize] + 4.0 * U * s.abs();
                if n * x_max.powi(T::ORDER as i32) < 1e300 && !((v - s).abs() <= tol) {
                    viol(rep, T::NAME, e, &acc.name(), format!("parallel {} = {} but exact {} (envelope {:e})", acc.name(), fmt_f(v), fmt_f(s), tol), cfg.clone());
                }
            }
            _ => {}
        }
    }
    spread.push(vals);
}

fn check_minmax(xs: &[f64], e: &Embedding, cfg: &Value, by_ref: bool, rep: &mut Report) {
    let (mn, mx): (Min, Max) = if let Some(layout) = cfg["adaptor"].as_u64() {
        // NaN markers are ignored by Min / Max anyway: filter on a finite marker instead
        let marker = 1.0e300;
        let padded: Vec<f64> = crate::types::padded_input(xs, layout as usize).into_iter().map(|x| if x.is_nan() { marker } else { x }).collect();
        if by_ref {
            (padded.par_iter().filter(|x| **x != marker).collect(), padded.par_iter().filter(|x| **x != marker).collect())
        } else {
            (padded.clone().into_par_iter().filter(|x| *x != marker).collect(), padded.into_par_iter().filter(|x| *x != marker).collect())
        }
    } else if by_ref { (xs.par_iter().collect(), xs.par_iter().collect()) } else { (xs.to_vec().into_par_iter().collect(), xs.to_vec().into_par_iter().collect()) };
    let smn: Min = xs.iter().collect();
    let smx: Max = xs.iter().collect();
    rep.evaluations += 2;
    if bits(mn.min()) != bits(smn.min()) {
        viol(rep, "Min", e, "min", format!("parallel min {} but sequential {}", fmt_f(mn.min()), fmt_f(smn.min())), cfg.clone());
    }
    if bits(mx.max()) != bits(smx.max()) {
        viol(rep, "Max", e, "max", format!("parallel max {} but sequential {}", fmt_f(mx.max()), fmt_f(smx.max())), cfg.clone());
    }
}

/// C16 under rayon: empty and one-element inputs (slices, and parallel iterators a filter leaves
/// empty) must give the documented sentinels / the exact single observation: bit for bit what the
/// sequential collect gives.
pub fn direct_rayon_tiny(rep: &mut Report) {
    for &threads in &[1usize, 2, 4, 16] {
        let p = pool(threads);
        for xs in [vec![], vec![0.1], vec![-3.0], vec![7.5e29]] {
            for adaptor in [None, Some(0u64), Some(1), Some(3)] {
                for by_ref in [true, false] {
                    let e = embedding("E0");
                    let cfg = json!({"embedding": "E0", "n": xs.len(), "threads": threads, "by_ref": by_ref, "adaptor": adaptor, "data": xs, "max_len": Value::Null, "min_len": 1});
                    rep.behaviours += 1;
                    rep.nontrivial.insert(hash_str(&cfg.to_string()));
                    let data: Vec<i64> = vec![0; xs.len()];
                    let t = Truth { n: xs.len() as f64, mean: Rat::int(0), cm: vec![], abs_cm: vec![], sigma_v: 0.0, vmin: 0, vmax: 0 };
                    let mut spread: Vec<Vec<f64>> = Vec::new();
                    let guarded = std::panic::catch_unwind(std::panic::AssertUnwindSafe(|| p.install(|| {
                        let rep = &mut *rep;
                        check_type::<average::Mean>(&data, &xs, &e, &t, &cfg, by_ref, rep, &mut spread);
                        check_type::<average::Variance>(&data, &xs, &e, &t, &cfg, by_ref, rep, &mut spread);
                        check_type::<average::Skewness>(&data, &xs, &e, &t, &cfg, by_ref, rep, &mut spread);
                        check_type::<average::Kurtosis>(&data, &xs, &e, &t, &cfg, by_ref, rep, &mut spread);
                        check_type::<average::Moments4>(&data, &xs, &e, &t, &cfg, by_ref, rep, &mut spread);
                        check_minmax(&xs, &e, &cfg, by_ref, rep);
                    })));
                    if guarded.is_err() {
                        viol(rep, "collect", &e, "panic", "parallel collection of an empty / one-element input panicked".into(), cfg.clone());
                    }
                }
            }
        }
    }
    minmax_special(1, rep);
    rep.sample(json!({"family": "rayon tiny", "inputs": ["[]", "[0.1]", "[-3]", "[7.5e29]"], "threads": [1, 2, 4, 16], "adaptors": ["none", "filter (padding right / left)", "chain(empty)"]}));
}

/// constant streams of a value that is not a multiple of a power of two, in chunks of every size
/// the splitter produces: the pooled mean of two equal means may round one ulp away from them, and
/// nothing may panic on that; len() exact, the statistics of a constant sample within the envelope
/// (mean within 4 ulps, variances tiny)
fn constant_streams(seed: u64, rep: &mut Report) {
    for &x in &[0.1f64, 0.3, 1.0 / 3.0, 1e9 + 0.1, -7.7e-3] {
        for &n in &[2usize, 3, 7, 64, 1000, 4097] {
            let xs = vec![x; n];
            for &threads in &[1usize, 4, 16] {
                let p = pool(threads);
                for max_len in [usize::MAX, 1, 3, 64] {
                    for by_ref in [true, false] {
                        let cfg = json!({"constant": x, "n": n, "threads": threads, "max_len": if max_len == usize::MAX { Value::Null } else { json!(max_len) }, "by_ref": by_ref, "seed": seed});
                        rep.behaviours += 1;
                        rep.nontrivial.insert(hash_str(&cfg.to_string()));
                        let e = embedding("E0");
                        let r = std::panic::catch_unwind(std::panic::AssertUnwindSafe(|| p.install(|| {
                            let k: average::Kurtosis = <average::Kurtosis as MomT>::par_collect_limits(&xs, 1, max_len, by_ref);
                            let m: average::Moments4 = <average::Moments4 as MomT>::par_collect_limits(&xs, 1, max_len, by_ref);
                            (k.len(), k.mean(), k.population_variance(), m.len(), m.mean())
                        })));
                        rep.evaluations += 5;
                        match r {
                            Err(_) => viol(rep, "Kurtosis/Moments4", &e, "panic", format!("parallel collection of {} copies of {:e} panicked", n, x), cfg.clone()),
                            Ok((kl, km, kv, ml, mm)) => {
                                if kl != n as u64 || ml != n as u64 {
                                    viol(rep, "Kurtosis/Moments4", &e, "len", format!("parallel len() = {} / {} but the input has {} items", kl, ml, n), cfg.clone());
                                }
                                let tol = 8.0 * (n as f64) * U * x.abs();
                                if !((km - x).abs() <= tol) || !((mm - x).abs() <= tol) {
                                    viol(rep, "Kurtosis/Moments4", &e, "mean", format!("mean of a constant sample {:e}: {:e} / {:e}", x, km, mm), cfg.clone());
                                }
                                if !(kv >= 0.0 && kv <= 64.0 * (n as f64) * U * x * x) {
                                    viol(rep, "Kurtosis", &e, "population_variance", format!("variance of a constant sample {:e}: {:e}", x, kv), cfg.clone());
                                }
                            }
                        }
                    }
                }
            }
        }
    }
}

/// Min / Max from parallel iterators over the special values (NaN of both signs, +-inf, signed zeros):
/// the extreme of the non-NaN items, +inf / -inf if there is none - in particular for inputs that are
/// NaN throughout, where a reduction without a neutral element has nothing to absorb the NaN
fn minmax_special(seed: u64, rep: &mut Report) {
    let mut rng = Xoshiro256PlusPlus::seed_from_u64(seed ^ 0x6e616e);
    let toks = [f64::NAN, -f64::NAN, f64::NEG_INFINITY, f64::INFINITY, -0.0, 0.0, 1.5, -2.5, 1.0e300, -1.0e300];
    let mut inputs: Vec<Vec<f64>> = Vec::new();
    for n in [1usize, 2, 3, 5, 64, 1000] {
        inputs.push(vec![f64::NAN; n]);
        inputs.push((0..n).map(|i| if i % 2 == 0 { f64::NAN } else { -f64::NAN }).collect());
        inputs.push((0..n).map(|_| toks[rng.random_range(0..toks.len())]).collect());
        inputs.push((0..n).map(|i| if i == n / 2 { -7.25 } else { f64::NAN }).collect());
    }
    let same = |a: f64, b: f64| a == b || (a.is_nan() && b.is_nan());
    for xs in &inputs {
        let want_min = xs.iter().copied().filter(|x| !x.is_nan()).fold(f64::INFINITY, f64::min);
        let want_max = xs.iter().copied().filter(|x| !x.is_nan()).fold(f64::NEG_INFINITY, f64::max);
        for &threads in &[1usize, 3, 16] {
            let p = pool(threads);
            for max_len in [usize::MAX, 1, 2] {
                for by_ref in [true, false] {
                    let e = embedding("E0");
                    let cfg = json!({"special values": xs.iter().take(12).map(|x| format!("{x}")).collect::<Vec<_>>(), "n": xs.len(), "threads": threads, "by_ref": by_ref,
                                     "max_len": if max_len == usize::MAX { Value::Null } else { json!(max_len) }});
                    rep.behaviours += 1;
                    rep.nontrivial.insert(hash_str(&cfg.to_string()));
                    let r = std::panic::catch_unwind(std::panic::AssertUnwindSafe(|| p.install(|| -> (Min, Max) {
                        if by_ref {
                            (xs.par_iter().with_max_len(max_len).collect(), xs.par_iter().with_max_len(max_len).collect())
                        } else {
                            (xs.clone().into_par_iter().with_max_len(max_len).collect(), xs.clone().into_par_iter().with_max_len(max_len).collect())
                        }
                    })));
                    rep.evaluations += 2;
                    match r {
                        Err(_) => viol(rep, "Min/Max", &e, "panic", "parallel collection of special values panicked".into(), cfg.clone()),
                        Ok((mn, mx)) => {
                            if !same(mn.min(), want_min) {
                                viol(rep, "Min", &e, "min", format!("parallel min {} but the smallest non-NaN item is {}", fmt_f(mn.min()), fmt_f(want_min)), cfg.clone());
                            }
                            if !same(mx.max(), want_max) {
                                viol(rep, "Max", &e, "max", format!("parallel max {} but the largest non-NaN item is {}", fmt_f(mx.max()), fmt_f(want_max)), cfg.clone());
                            }
                        }
                    }
                }
            }
        }
    }
}

pub fn direct_rayon(seed: u64, max_n: usize, reps: usize, rep: &mut Report) {
    constant_streams(seed, rep);
    minmax_special(seed, rep);
    let mut rng = Xoshiro256PlusPlus::seed_from_u64(seed);
    let alphabet = [-3i64, -1, 0, 2, 3];
    // 150,000: both halves of the top-level join hold more than 2^16 items
    let mut ns: Vec<usize> = vec![0, 1, 2, 3, 5, 17, 100, 1000, 150_000];
    let mut k = 10_000;
    while k <= max_n {
        ns.push(k);
        k *= 10;
    }
    for &n in &ns {
        let data: Vec<i64> = (0..n).map(|_| alphabet[rng.random_range(0..5)]).collect();
        let hi_order: u32 = if n <= 200 { 10 } else { 4 };
        let t = if n > 0 { truth(&data, hi_order) } else { Truth { n: 0.0, mean: Rat::int(0), cm: vec![], abs_cm: vec![], sigma_v: 0.0, vmin: 0, vmax: 0 } };
        for ename in ["E0", "E3", "E5"] {
            let e = embedding(ename);
            let xs: Vec<f64> = data.iter().map(|&v| e.x(v)).collect();
            for &threads in &[1usize, 2, 4, 7, 16] {
                if n >= 100_000 && threads < 4 {
                    continue;
                }
                let p = pool(threads);
                let mut spread: Vec<Vec<f64>> = Vec::new();
                // default splitting, and explicit limits that force many small leaves (every leaf
                // costs one identity merge, every join one merge)
                let limits: Vec<(usize, Option<usize>)> = if n <= 1000 { vec![(1, None), (1, Some(1)), (1, Some(3)), (2, Some(5))] } else { vec![(1, None), (1, Some(64))] };
                for r in 0..reps * limits.len() {
                    let by_ref = r % 2 == 0;
                    let (min_len, max_len) = limits[(r / 2) % limits.len()];
                    let cfg = json!({"embedding": ename, "n": n, "threads": threads, "repetition": r, "by_ref": by_ref, "seed": seed, "min_len": min_len, "max_len": max_len, "data_prefix": &data[..data.len().min(12)]});
                    rep.behaviours += 1;
                    rep.nontrivial.insert(hash_str(&cfg.to_string()));
                    let guarded = std::panic::catch_unwind(std::panic::AssertUnwindSafe(|| p.install(|| {
                        let rep = &mut *rep;
                        check_type::<average::Mean>(&data, &xs, &e, &t, &cfg, by_ref, rep, &mut spread);
                        check_type::<average::Variance>(&data, &xs, &e, &t, &cfg, by_ref, rep, &mut spread);
                        check_type::<average::Skewness>(&data, &xs, &e, &t, &cfg, by_ref, rep, &mut spread);
                        check_type::<average::Kurtosis>(&data, &xs, &e, &t, &cfg, by_ref, rep, &mut spread);
                        check_type::<average::Moments4>(&data, &xs, &e, &t, &cfg, by_ref, rep, &mut spread);
                        if n <= 200 {
                            check_type::<m6::M6>(&data, &xs, &e, &t, &cfg, by_ref, rep, &mut spread);
                            check_type::<m10::M10>(&data, &xs, &e, &t, &cfg, by_ref, rep, &mut spread);
                        }
                        check_minmax(&xs, &e, &cfg, by_ref, rep);
                    })));
                    if guarded.is_err() {
                        viol(rep, "collect", &e, "panic", "parallel collection panicked".into(), cfg.clone());
                    }
                    if rep.samples.len() < 3 && n == 17 {
                        rep.sample(cfg);
                    }
                }
                // length-changing adaptors: leaves (and whole subtrees) of the fold without items
                if n <= 10_000 && ename != "E3" {
                    for layout in 0..4usize {
                        for (by_ref, max_len) in [(true, usize::MAX), (false, 2usize), (true, 64usize)] {
                            let meaning = ["filter, padding right", "filter, padding left", "filter, sparse", "chain(empty)"][layout];
                            let cfg = json!({"embedding": ename, "n": n, "threads": threads, "by_ref": by_ref, "seed": seed, "adaptor": layout,
                                             "adaptor_meaning": meaning,
                                             "max_len": if max_len == usize::MAX { Value::Null } else { json!(max_len) }, "data_prefix": &data[..data.len().min(12)]});
                            rep.behaviours += 1;
                            rep.nontrivial.insert(hash_str(&cfg.to_string()));
                            let guarded = std::panic::catch_unwind(std::panic::AssertUnwindSafe(|| p.install(|| {
                                let rep = &mut *rep;
                                check_type::<average::Mean>(&data, &xs, &e, &t, &cfg, by_ref, rep, &mut spread);
                                check_type::<average::Variance>(&data, &xs, &e, &t, &cfg, by_ref, rep, &mut spread);
                                check_type::<average::Kurtosis>(&data, &xs, &e, &t, &cfg, by_ref, rep, &mut spread);
                                check_type::<average::Moments4>(&data, &xs, &e, &t, &cfg, by_ref, rep, &mut spread);
                                check_minmax(&xs, &e, &cfg, by_ref, rep);
                            })));
                            if guarded.is_err() {
                                viol(rep, "collect", &e, "panic", "parallel collection through an adaptor panicked".into(), cfg.clone());
                            }
                        }
                    }
                }
            }
        }
    }
}
