//! Spec -> implementation replay for Quantile (Gen_Quantile), plus direct invariant checks.
//!
//! Each emitted line is one stream prefix with the specification's exact marker state before
//! and after the last observation.  The harness feeds the stream to a real `Quantile`, reads
//! the marker state from its public serde form, and checks the *last step* given a conforming
//! pre-state (every earlier step is checked by the line of the shorter prefix).

use crate::exact::*;
use crate::report::*;
use average::{Estimate, Quantile};
use serde_json::{json, Value};

pub struct QWant {
    pub prop: String,
    pub embeddings: Vec<Embedding>,
}

#[derive(Clone, Debug)]
pub struct Markers {
    pub q: [f64; 5],
    pub n: [i64; 5],
    pub m: [f64; 5],
}

/// marker state from the serde form; None if the field names are not found (refactored tree):
/// then only the public accessors are compared.
pub fn markers(qt: &Quantile) -> Option<Markers> {
    let v: Value = serde_json::to_value(qt).ok()?;
    let arr = |k: &str| -> Option<Vec<f64>> { Some(v.get(k)?.as_array()?.iter().map(|x| x.as_f64().unwrap_or(f64::NAN)).collect()) };
    let q = arr("q")?;
    let n = arr("n")?;
    let m = arr("m")?;
    if q.len() != 5 || n.len() != 5 || m.len() != 5 {
        return None;
    }
    Some(Markers {
        q: [q[0], q[1], q[2], q[3], q[4]],
        n: [n[0] as i64, n[1] as i64, n[2] as i64, n[3] as i64, n[4] as i64],
        m: [m[0], m[1], m[2], m[3], m[4]],
    })
}

fn rat(v: &Value) -> Rat {
    Rat::new(v[0].as_i64().unwrap() as i128, v[1].as_i64().unwrap() as i128)
}

fn is_pow2(d: i128) -> bool {
    d > 0 && (d & (d - 1)) == 0
}

fn viol(rep: &mut Report, prop: &str, e: &Embedding, line: &Value, acc: &str, what: String, detail: Value) {
    rep.violation(json!({
        "property": prop, "family": "quantile", "type": "Quantile", "embedding": e.name,
        "history": {"p": line["p"], "data": line["data"]}, "accessor": acc, "what": what, "detail": detail,
        "signature": format!("{}|Quantile|{}", prop, acc),
    }));
}

/// exact image of a rational height under the embedding, with a flag telling whether the f64
/// is exactly that value
fn emb_rat(e: &Embedding, r: Rat) -> (f64, bool) {
    let v = r.to_f64();
    let exact_v = is_pow2(r.d) && r.n.abs() < (1i128 << 53);
    let x = e.a + e.b * v;
    // a + b*v is exact iff representable: check by reversing
    let exact = exact_v && ((x - e.a) / e.b == v) && (e.a == 0.0 || (x - e.a) == e.b * v);
    (x, exact)
}

fn close(a: f64, b: f64, tol: f64) -> bool {
    (a - b).abs() <= tol
}

fn replay(line: &Value, e: &Embedding, want: &QWant, rep: &mut Report) {
    replay_via(line, e, want, rep, false);
    // the same estimator reached through Clone::clone_from onto an estimator that was built with
    // another p and has seen other data (Clone is a stuttering step of the specification); short
    // streams only, to bound the cost
    if line["data"].as_array().map(|d| d.len() <= 6).unwrap_or(false) && want.prop != "C18" {
        replay_via(line, e, want, rep, true);
    }
}

fn replay_via(line: &Value, e: &Embedding, want: &QWant, rep: &mut Report, via_clone_from: bool) {
    rep.replays += 1;
    let prop = want.prop.as_str();
    let pr = rat(&line["p"]);
    let p = pr.to_f64();
    let p_exact = is_pow2(pr.d);
    let data: Vec<i64> = line["data"].as_array().unwrap().iter().map(|x| x.as_i64().unwrap()).collect();
    let cnt = data.len();
    let xs: Vec<f64> = data.iter().map(|&v| e.x(v)).collect();
    let xmax = xs.iter().fold(0.0f64, |a, &b| a.max(b.abs()));
    let feed = |upto: usize| -> Quantile {
        let mut qt = Quantile::new(p);
        for &x in &xs[..upto] {
            qt.add(x);
        }
        if via_clone_from {
            let mut d = Quantile::new(if p == 0.25 { 0.75 } else { 0.25 });
            for k in 0..(upto % 7) {
                d.add(1000.0 - k as f64);
            }
            d.clone_from(&qt);
            return d;
        }
        qt
    };
    let qt = feed(cnt);
    let lo = xs.iter().cloned().fold(f64::INFINITY, f64::min);
    let hi = xs.iter().cloned().fold(f64::NEG_INFINITY, f64::max);
    let mk = markers(&qt);
    if mk.is_none() {
        rep.bump("unobservable_marker_state", 1);
    }
    // ------------------------------------------------------------------ C15 (and C16 row)
    if prop == "C15" || prop == "C16" {
        rep.evaluations += 5;
        if qt.len() != cnt as u64 {
            viol(rep, prop, e, line, "len", format!("len() = {} after {} observations", qt.len(), cnt), json!({}));
        }
        if qt.is_empty() != (cnt == 0) {
            viol(rep, prop, e, line, "is_empty", format!("is_empty() = {} with {} observations", qt.is_empty(), cnt), json!({}));
        }
        let est = qt.quantile();
        if cnt == 0 {
            if !est.is_nan() {
                viol(rep, prop, e, line, "quantile", format!("empty estimator must report NaN, observed {}", fmt_f(est)), json!({}));
            }
        } else if prop == "C15" {
            if !(est >= lo && est <= hi) {
                viol(rep, prop, e, line, "quantile", format!("quantile() = {} outside the data range [{}, {}]", fmt_f(est), fmt_f(lo), fmt_f(hi)), json!({}));
            }
        }
        if prop == "C15" {
            if qt.p().to_bits() != p.to_bits() {
                viol(rep, prop, e, line, "p", format!("p() = {} but constructed with {}", fmt_f(qt.p()), fmt_f(p)), json!({}));
            }
            if let (Some(m), true) = (&mk, cnt >= 5) {
                rep.evaluations += 3;
                if !(m.q[0] <= m.q[1] && m.q[1] <= m.q[2] && m.q[2] <= m.q[3] && m.q[3] <= m.q[4]) {
                    viol(rep, prop, e, line, "markers", format!("marker heights are not non-decreasing: {:?}", m.q), json!({}));
                }
                if m.q[0] != lo || m.q[4] != hi {
                    viol(rep, prop, e, line, "markers", format!("extreme markers {:?}/{:?} are not the running min/max {:?}/{:?}", m.q[0], m.q[4], lo, hi), json!({}));
                }
            }
        }
        return;
    }
    // ------------------------------------------------------------------ C20: estimate()
    if prop == "C20" {
        rep.evaluations += 1;
        if bits(qt.estimate()) != bits(qt.quantile()) {
            viol(rep, prop, e, line, "estimate", "estimate() differs from quantile()".into(), json!({}));
        }
        return;
    }
    // ------------------------------------------------------------------ C18: checkpoint anywhere
    if prop == "C18" {
        let j_final = serde_json::to_string(&qt).unwrap();
        for k in 0..=cnt {
            let mut a = feed(k);
            let before = serde_json::to_string(&a).unwrap();
            let restored: Quantile = serde_json::from_str(&before).unwrap();
            let after = serde_json::to_string(&a).unwrap();
            rep.evaluations += 3;
            if before != after {
                viol(rep, prop, e, line, "serialize", format!("serialising modified the estimator at position {k}"), json!({}));
            }
            if bits(restored.quantile()) != bits(a.quantile()) || restored.len() != a.len() || bits(restored.p()) != bits(a.p()) {
                viol(rep, prop, e, line, "roundtrip", format!("restored estimator differs at position {k}: {} vs {}", fmt_f(restored.quantile()), fmt_f(a.quantile())), json!({"json": before}));
            }
            a = restored;
            // the same through a positional (not self-describing) lossless format, at odd positions
            match crate::posfmt::roundtrip(&feed(k)) {
                Ok(rp) => {
                    rep.evaluations += 1;
                    if serde_json::to_string(&rp).unwrap() != before {
                        viol(rep, prop, e, line, "roundtrip (positional format)", format!("restored estimator differs at position {k}"), json!({"json": before, "restored": serde_json::to_string(&rp).unwrap()}));
                    }
                    if k % 2 == 1 {
                        a = rp;
                    }
                }
                Err(_) => rep.bump("positional_format_not_supported", 1),
            }
            for &x in &xs[k..] {
                a.add(x);
            }
            if serde_json::to_string(&a).unwrap() != j_final || bits(a.quantile()) != bits(qt.quantile()) {
                viol(rep, prop, e, line, "continue", format!("continuing after a round trip at position {k} diverged from the uninterrupted computation"), json!({"restored": serde_json::to_string(&a).unwrap(), "uninterrupted": j_final}));
            }
        }
        return;
    }
    // ------------------------------------------------------------------ C07: small-sample path
    if cnt < 5 {
        if prop != "C07" {
            return;
        }
        if cnt == 0 {
            return;
        }
        let exp = match &line["quantile"] {
            Value::Array(_) => rat(&line["quantile"]),
            _ => return,
        };
        let xe = emb_rat(e, exp);
        let sm = &line["small"];
        let whole = sm["whole"].as_bool().unwrap();
        let xlo = emb_rat(e, rat(&sm["lo"]));
        let xhi = emb_rat(e, rat(&sm["hi"]));
        // among denormals the spacing is absolute (2^-1074) and 4u * x underflows to nothing: a value that
        // is representable must be returned exactly (the midpoint of two equal observations is that
        // observation), one that is not (the midpoint of neighbouring denormals) to within one spacing
        let denormal = e.b < 1e-300 && e.a == 0.0;
        let tol = |a: (f64, bool)| if denormal { if a.1 { 0.0 } else { 5e-324 } } else { 4.0 * U * a.0.abs().max(xmax) };
        let check = |rep: &mut Report, pp: f64, accept: &[(f64, bool)], label: &str| {
            let mut qt = Quantile::new(pp);
            for &x in &xs {
                qt.add(x);
            }
            if via_clone_from {
                let mut d = Quantile::new(if pp == 0.5 { 1.0 } else { 0.5 });
                d.add(-1000.0);
                d.add(1000.0);
                d.clone_from(&qt);
                qt = d;
            }
            let got = qt.quantile();
            rep.evaluations += 1;
            if !accept.iter().any(|&a| close(got, a.0, tol(a))) {
                viol(rep, "C07", e, line, "quantile", format!("{label}: quantile() = {} with p = {} but the exact sample quantile is {} (admissible: {:?})", fmt_f(got), fmt_f(pp), fmt_f(accept[0].0), accept.iter().map(|a| a.0).collect::<Vec<_>>()), json!({"p_f64": pp}));
            }
        };
        if p_exact {
            check(rep, p, &[xe], "p exactly representable");
        } else if whole {
            // n*p is within rounding of a whole number: either adjacent convention
            check(rep, p, &[xe, xlo, xhi], "p within rounding of a k/n boundary");
        } else {
            // n*p not whole and p not exactly representable: safe only if n*p is far from a whole number
            let np = pr.mul(Rat::int(cnt as i128));
            let frac = np.to_f64() - np.to_f64().floor();
            if frac > 1e-9 && frac < 1.0 - 1e-9 {
                check(rep, p, &[xe], "p not on a boundary");
            } else {
                check(rep, p, &[xe, xlo, xhi], "p within rounding of a k/n boundary");
            }
        }
        // a little below / above an exact boundary -- far more than rounding, far less than the
        // spacing of the p grid: the definition gives the lower / upper order statistic, strictly
        let np = pr.mul(Rat::int(cnt as i128));
        if np.d == 1 && p_exact {
            for sh in [30, 40, 47] {
                let delta = p2(-sh);
                if p > 0.0 {
                    check(rep, p - delta, &[xlo], "p slightly below a k/n boundary");
                }
                if p < 1.0 {
                    let want = if np.n == 0 { xlo } else { xhi };
                    check(rep, p + delta, &[want], "p slightly above a k/n boundary");
                }
            }
        }
        // one ulp either side of an exact boundary: within rounding of a whole number
        let boundary = whole || pr.n == 0 || pr == Rat::int(1) || (pr.mul(Rat::int(cnt as i128)).d == 1);
        if boundary {
            let mid_set = [xe, xlo, xhi];
            let up = f64::from_bits(p.to_bits() + 1);
            if up <= 1.0 {
                // one ulp above k/n: the next convention (hi) or, within rounding, the others
                let j = pr.mul(Rat::int(cnt as i128));
                let _ = j;
                check(rep, up, &upper_accept(&xs, pr, cnt, &mid_set), "p one ulp above a boundary");
            }
            if p > 0.0 {
                let dn = f64::from_bits(p.to_bits() - 1);
                check(rep, dn, &mid_set, "p one ulp below a boundary");
            }
        }
        return;
    }
    // ------------------------------------------------------------------ C05: P-square steps
    if prop != "C05" {
        return;
    }
    if !p_exact {
        return;
    }
    let spec_q: Vec<Rat> = line["q"].as_array().unwrap().iter().map(rat).collect();
    let spec_pos: Vec<i64> = line["pos"].as_array().unwrap().iter().map(|x| x.as_i64().unwrap()).collect();
    let spec_des: Vec<Rat> = line["des"].as_array().unwrap().iter().map(rat).collect();
    let tol = 64.0 * (cnt as f64) * U * xmax.max(e.b);
    // oracle cross-check: one Step of qref (the f64 transcription used on long streams) from the
    // specification's exact pre-state must reproduce the specification's post-state, unless the
    // specification flags a tie at this step
    if cnt >= 6 && !line["ctie"].as_bool().unwrap() && !line["ptie"].as_bool().unwrap() {
        let pq: Vec<Rat> = line["prevq"].as_array().unwrap().iter().map(rat).collect();
        let pp: Vec<i64> = line["prevpos"].as_array().unwrap().iter().map(|x| x.as_i64().unwrap()).collect();
        let mut rf = crate::qref::QRef::new(p);
        rf.cnt = cnt - 1;
        for i in 0..5 {
            rf.q[i] = emb_rat(e, pq[i]).0;
            rf.n[i] = pp[i];
            rf.m[i] = spec_des[i].to_f64() - rf.dm[i];
        }
        rf.add(xs[cnt - 1]);
        rep.crosschecks += 1;
        let same = (0..5).all(|i| rf.n[i] == spec_pos[i] && rf.m[i] == spec_des[i].to_f64() && close(rf.q[i], emb_rat(e, spec_q[i]).0, tol));
        if !same {
            rep.tool_errors.push(format!("qref disagrees with Quantile.tla's Step on {:?} p={}: {:?} {:?} vs {:?} {:?}", data, p, rf.q, rf.n, spec_q.iter().map(|r| emb_rat(e, *r).0).collect::<Vec<_>>(), spec_pos));
        }
    }
    // pre-state
    let mut exact_pre = true;
    if cnt >= 6 {
        let pre = feed(cnt - 1);
        if let Some(pm) = markers(&pre) {
            let pq: Vec<Rat> = line["prevq"].as_array().unwrap().iter().map(rat).collect();
            let pp: Vec<i64> = line["prevpos"].as_array().unwrap().iter().map(|x| x.as_i64().unwrap()).collect();
            let mut ok = true;
            for i in 0..5 {
                let (x, ex) = emb_rat(e, pq[i]);
                if pm.n[i] != pp[i] || !close(pm.q[i], x, tol) {
                    ok = false;
                }
                if !(ex && pm.q[i] == x) {
                    exact_pre = false;
                }
            }
            if !ok {
                // an earlier step already differs; that step's own line reports or excuses it
                rep.bump("skipped_upstream_difference", 1);
                return;
            }
        }
    }
    let ctie = line["ctie"].as_bool().unwrap();
    let ptie = line["ptie"].as_bool().unwrap();
    let excusable = ptie || (ctie && !exact_pre);
    let mut bad: Option<(String, String)> = None;
    if let Some(m) = &mk {
        rep.evaluations += 15;
        for i in 0..5 {
            if m.n[i] != spec_pos[i] {
                bad = Some(("positions".into(), format!("marker positions {:?} but P-square prescribes {:?}", m.n, spec_pos)));
                break;
            }
        }
        if bad.is_none() {
            for i in 0..5 {
                if m.m[i] != spec_des[i].to_f64() {
                    bad = Some(("desired positions".into(), format!("desired positions {:?} but P-square prescribes {:?}", m.m, spec_des.iter().map(|r| r.to_f64()).collect::<Vec<_>>())));
                    break;
                }
            }
        }
        if bad.is_none() {
            for i in 0..5 {
                let (x, _) = emb_rat(e, spec_q[i]);
                if !close(m.q[i], x, tol) {
                    bad = Some(("heights".into(), format!("marker {} height {} but P-square prescribes {} (tolerance {:e}); all heights {:?}", i + 1, fmt_f(m.q[i]), fmt_f(x), tol, m.q)));
                    break;
                }
            }
        }
    }
    rep.evaluations += 1;
    if bad.is_none() {
        let (x, _) = emb_rat(e, spec_q[2]);
        let got = qt.quantile();
        if !close(got, x, tol) {
            bad = Some(("quantile".into(), format!("quantile() = {} but the middle marker prescribed by P-square is {} (tolerance {:e})", fmt_f(got), fmt_f(x), tol)));
        }
    }
    // At a parabolic tie the rounded candidate may fall on either side of the neighbour, so both
    // the parabolic and the linear outcome are admissible -- but a correct implementation never
    // ACCEPTS a candidate that is exactly equal to a neighbouring height (the test is strict): a
    // moved marker whose new height is bit-equal to a neighbour's, where P-square prescribes a
    // different height, is not a rounding effect.
    let mut strictness_broken = None;
    if let (Some((_, _)), true, Some(m)) = (&bad, ptie, &mk) {
        for i in 1..4 {
            for nb in [i - 1, i + 1] {
                let (xs_i, _) = emb_rat(e, spec_q[i]);
                let (xs_nb, _) = emb_rat(e, spec_q[nb]);
                if m.q[i] == m.q[nb] && !close(xs_i, xs_nb, tol) && close(m.q[nb], xs_nb, tol) {
                    strictness_broken = Some(format!(
                        "marker {} took the height {} of its neighbour {} although P-square prescribes {} (a parabolic prediction equal to a neighbouring height must be rejected in favour of the linear formula); heights {:?}",
                        i + 1, fmt_f(m.q[i]), nb + 1, fmt_f(xs_i), m.q));
                }
            }
        }
    }
    if let Some((acc, what)) = bad {
        if let Some(w) = strictness_broken {
            viol(rep, "C05", e, line, "parabolic acceptance", w, json!({"ctie": ctie, "ptie": ptie, "spec_pos": spec_pos}));
        } else if excusable {
            rep.bump("rounding_divergent", 1);
        } else {
            viol(rep, "C05", e, line, &acc, what, json!({"ctie": ctie, "ptie": ptie, "exact_pre": exact_pre, "spec_pos": spec_pos}));
        }
    } else {
        rep.bump("steps_conforming", 1);
    }
}

/// admissible values one ulp above the boundary p = k/n
fn upper_accept(_xs: &[f64], _p: Rat, _cnt: usize, mid_set: &[(f64, bool); 3]) -> Vec<(f64, bool)> {
    mid_set.to_vec()
}

pub fn process_line(v: &Value, want: &QWant, rep: &mut Report) {
    let hs = hash_str(&format!("{}{}", v["p"], v["data"]));
    rep.behaviours += 1;
    let kept_before = rep.violations.len();
    if !rep.distinct.insert(hs) {
        rep.bump("duplicate_histories", 1);
        return;
    }
    let data = v["data"].as_array().unwrap();
    if data.len() >= 2 && data.iter().any(|x| x != &data[0]) {
        rep.nontrivial.insert(hs);
    }
    if rep.nontrivial.contains(&hs) {
        rep.sample(json!({"p": v["p"], "data": v["data"], "spec_pos": v["pos"], "spec_q": v["q"]}));
    }
    for e in &want.embeddings {
        // a panic of the code under test is data, not a tool failure
        let r = std::panic::catch_unwind(std::panic::AssertUnwindSafe(|| replay(v, e, want, &mut *rep)));
        if r.is_err() {
            viol(rep, &want.prop, e, v, "panic", "the code under test panicked (add / quantile / len / serde on this stream)".into(), json!({}));
        }
    }
    for x in rep.violations.iter_mut().skip(kept_before) {
        x["line"] = v.clone();
    }
}
