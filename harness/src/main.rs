//! `conform`: binds the TLA+ specifications under /verif/spec to the real `average` crate.
//!
//!   conform replay --family F --input tlc.out --prop Cxx [--types a,b] [--embeddings E0,E1] --out r.json
//!       spec -> implementation: execute every behaviour TLC emitted on the real types and
//!       compare every public observation with the specification's exact values.
//!   conform record --family F ... --out trace.ndjson
//!       implementation -> spec: drive the real code and log a trace for TLC to validate.
//!
//! Exit status: 0 on completion (violations are *data*, reported in the JSON result);
//! 2 on a tool error.

mod exact;
mod hist;
mod hist_types;
mod ingest;
mod long;
mod minmax;
mod moments;
mod pairs;
mod par;
mod posfmt;
mod qlong;
mod qref;
mod quantile;
mod rechist;
mod record;
mod report;
mod serdelong;
mod tmoments;
mod tpairs;
mod types;

use rayon::prelude::*;
use report::Report;
use serde_json::Value;
use std::collections::HashMap;
use std::io::{BufRead, BufReader};

fn args_map() -> (String, HashMap<String, String>) {
    let mut it = std::env::args().skip(1);
    let cmd = it.next().unwrap_or_default();
    let mut m = HashMap::new();
    let mut key: Option<String> = None;
    for a in it {
        if let Some(k) = a.strip_prefix("--") {
            if let Some(prev) = key.take() {
                m.insert(prev, "true".to_string());
            }
            key = Some(k.to_string());
        } else if let Some(k) = key.take() {
            m.insert(k, a);
        }
    }
    if let Some(prev) = key.take() {
        m.insert(prev, "true".to_string());
    }
    (cmd, m)
}

/// Extract the JSON objects TLC printed (PrintT of a string shows it as a quoted, escaped literal).
pub fn read_emitted(path: &str) -> Vec<Value> {
    let f = std::fs::File::open(path).unwrap_or_else(|e| {
        eprintln!("cannot open {path}: {e}");
        std::process::exit(2)
    });
    let lines: Vec<String> = BufReader::new(f).lines().map(|l| l.unwrap()).filter(|l| l.starts_with("\"{") || l.starts_with('{')).collect();
    lines
        .par_iter()
        .map(|l| {
            if l.starts_with('{') {
                serde_json::from_str::<Value>(l).expect("bad json line")
            } else {
                let inner: String = serde_json::from_str(l).expect("bad TLC string literal");
                serde_json::from_str::<Value>(&inner).expect("bad emitted json")
            }
        })
        .collect()
}

/// Stream the emitted behaviours through `f` in bounded batches (a thorough-tier generator
/// output is gigabytes; parsed JSON values are ten times that), in parallel within a batch.
pub fn process_emitted<F>(path: &str, f: F) -> Report
where
    F: Fn(&Value, &mut Report) + Sync,
{
    let file = std::fs::File::open(path).unwrap_or_else(|e| {
        eprintln!("cannot open {path}: {e}");
        std::process::exit(2)
    });
    let mut total = Report::default();
    let mut batch: Vec<String> = Vec::with_capacity(20_000);
    let run = |batch: &Vec<String>| -> Report {
        batch
            .par_iter()
            .fold(Report::default, |mut r, l| {
                let v: Value = if l.starts_with('{') {
                    serde_json::from_str::<Value>(l).expect("bad json line")
                } else {
                    let inner: String = serde_json::from_str(l).expect("bad TLC string literal");
                    serde_json::from_str::<Value>(&inner).expect("bad emitted json")
                };
                f(&v, &mut r);
                r
            })
            .reduce(Report::default, Report::merge)
    };
    for l in BufReader::new(file).lines() {
        let l = l.unwrap();
        if l.starts_with("\"{") || l.starts_with('{') {
            batch.push(l);
            if batch.len() >= 20_000 {
                total = total.merge(run(&batch));
                batch.clear();
            }
        }
    }
    if !batch.is_empty() {
        total = total.merge(run(&batch));
    }
    total
}

fn list(m: &HashMap<String, String>, k: &str, default: &str) -> Vec<String> {
    m.get(k).map(|s| s.as_str()).unwrap_or(default).split(',').filter(|s| !s.is_empty()).map(|s| s.to_string()).collect()
}

fn main() {
    // panics of the code under test are data; keep stderr quiet
    if std::env::var("CONFORM_DEBUG").is_err() {
        std::panic::set_hook(Box::new(|_| {}));
    }
    let (cmd, m) = args_map();
    let threads: usize = m.get("threads").and_then(|s| s.parse().ok()).unwrap_or(12);
    rayon::ThreadPoolBuilder::new().num_threads(threads).build_global().ok();
    let t0 = std::time::Instant::now();
    let rep: Report = match (cmd.as_str(), m.get("family").map(|s| s.as_str())) {
        ("replay", Some("moments")) => {
                        let want = moments::Want {
                prop: m["prop"].clone(),
                types: list(&m, "types", "Mean,Variance,Skewness,Kurtosis,Moments4,M4,M5,M6,M8,M10"),
                embeddings: exact::embeddings(&list(&m, "embeddings", "E0").iter().map(|s| s.as_str()).collect::<Vec<_>>()),
            };
            process_emitted(&m["input"], |v, r| {
                moments::process_line(v, &want, r);
            })
        }
        ("replay", Some(fam @ ("weighted" | "covariance"))) => {
                        let weighted = fam == "weighted";
            let want = pairs::PWant {
                prop: m["prop"].clone(),
                types: list(&m, "types", "WeightedMean,WeightedMeanWithError,Covariance"),
                embs: pairs::parse_pair_embs(m.get("embeddings").map(|s| s.as_str()).unwrap_or(if weighted { "E0:W0" } else { "E0:E0" }), weighted),
                family: fam.to_string(),
            };
            process_emitted(&m["input"], |v, r| {
                pairs::process_line(v, &want, r);
            })
        }
        ("replay", Some("minmax")) => {
                        let want = minmax::MWant {
                prop: m["prop"].clone(),
                scales: list(&m, "embeddings", "1").iter().map(|s| s.parse::<f64>().unwrap()).collect(),
            };
            process_emitted(&m["input"], |v, r| {
                minmax::process_line(v, &want, r);
            })
        }
        ("replay", Some("quantile")) => {
                        let want = quantile::QWant {
                prop: m["prop"].clone(),
                embeddings: exact::embeddings(&list(&m, "embeddings", "E0").iter().map(|s| s.as_str()).collect::<Vec<_>>()),
            };
            process_emitted(&m["input"], |v, r| {
                quantile::process_line(v, &want, r);
            })
        }
        ("record", Some("quantile")) => {
            let mut r = Report::default();
            let seed: u64 = m.get("seed").and_then(|s| s.parse().ok()).unwrap_or(1);
            let n: usize = m.get("n").and_then(|s| s.parse().ok()).unwrap_or(1000);
            record::record_quantile(&m["trace"], seed, n, &mut r);
            r
        }
        ("replay", Some("histogram")) => {
                        let want = hist::HWant { prop: m["prop"].clone() };
            process_emitted(&m["input"], |v, r| {
                hist_types::process_line(v, &want, r);
            })
        }
        ("record", Some("histogram")) => {
            let mut r = Report::default();
            let seed: u64 = m.get("seed").and_then(|s| s.parse().ok()).unwrap_or(1);
            let n: usize = m.get("n").and_then(|s| s.parse().ok()).unwrap_or(1000);
            let len: usize = m.get("len").and_then(|s| s.parse().ok()).unwrap_or(10);
            record::record_histogram(&m["trace"], seed, n, len, &mut r);
            r
        }
        ("replay", Some("ingest")) => {
            let want_prop = m.get("prop").cloned().unwrap_or_else(|| "C20".to_string());
            process_emitted(&m["input"], |v, r| {
                ingest::process_line(v, &want_prop, r);
            })
        }
        ("record", Some("len")) => {
            let mut r = Report::default();
            let seed: u64 = m.get("seed").and_then(|s| s.parse().ok()).unwrap_or(1);
            let n: usize = m.get("n").and_then(|s| s.parse().ok()).unwrap_or(500);
            record::record_len(&m["trace"], seed, n, &mut r);
            r
        }
        ("record", Some("moments")) => {
            let mut r = Report::default();
            let seed: u64 = m.get("seed").and_then(|s| s.parse().ok()).unwrap_or(1);
            let n: usize = m.get("n").and_then(|s| s.parse().ok()).unwrap_or(400);
            tmoments::record_moments(&m["trace"], &m["prop"], seed, n, &mut r);
            r
        }
        ("record", Some("pairs")) => {
            let mut r = Report::default();
            let seed: u64 = m.get("seed").and_then(|s| s.parse().ok()).unwrap_or(1);
            let n: usize = m.get("n").and_then(|s| s.parse().ok()).unwrap_or(300);
            tpairs::record_pairs(&m["trace"], &m["prop"], seed, n, &mut r);
            r
        }
        ("record", Some("qstep")) => {
            let mut r = Report::default();
            let seed: u64 = m.get("seed").and_then(|s| s.parse().ok()).unwrap_or(1);
            let n: usize = m.get("n").and_then(|s| s.parse().ok()).unwrap_or(300);
            qlong::record_qstep(&m["trace"], seed, n, &mut r);
            r
        }
        ("record", Some("minmax")) => {
            let mut r = Report::default();
            let seed: u64 = m.get("seed").and_then(|s| s.parse().ok()).unwrap_or(1);
            let n: usize = m.get("n").and_then(|s| s.parse().ok()).unwrap_or(500);
            record::record_minmax(&m["trace"], seed, n, true, &mut r);
            r
        }
        ("record", Some("rayon")) => {
            let mut r = Report::default();
            let seed: u64 = m.get("seed").and_then(|s| s.parse().ok()).unwrap_or(1);
            let reps: usize = m.get("reps").and_then(|s| s.parse().ok()).unwrap_or(2);
            record::ensure_dir(&m["trace"]);
            par::record_rayon(&m["trace"], seed, reps, &mut r);
            r
        }
        ("direct", Some("ingestlong")) => {
            let mut r = Report::default();
            let seed: u64 = m.get("seed").and_then(|s| s.parse().ok()).unwrap_or(1);
            ingest::direct_ingestlong(&m["prop"], seed, &mut r);
            r
        }
        ("direct", Some("buildscan")) => {
            let mut r = Report::default();
            hist_types::direct_buildscan(&mut r);
            r
        }
        ("direct", Some("rayontiny")) => {
            let mut r = Report::default();
            par::direct_rayon_tiny(&mut r);
            r
        }
        ("direct", Some("rayon")) => {
            let mut r = Report::default();
            let seed: u64 = m.get("seed").and_then(|s| s.parse().ok()).unwrap_or(1);
            let reps: usize = m.get("reps").and_then(|s| s.parse().ok()).unwrap_or(2);
            let max_n: usize = m.get("max_n").and_then(|s| s.parse().ok()).unwrap_or(10_000);
            par::direct_rayon(seed, max_n, reps, &mut r);
            r
        }
        ("direct", Some("long")) => {
            let mut r = Report::default();
            let seed: u64 = m.get("seed").and_then(|s| s.parse().ok()).unwrap_or(1);
            let max_n: usize = m.get("max_n").and_then(|s| s.parse().ok()).unwrap_or(10_000);
            long::direct_long(
                &m["prop"],
                seed,
                max_n,
                list(&m, "types", "Mean,Variance,Skewness,Kurtosis,Moments4,M6,M10"),
                list(&m, "embeddings", "E0,E1,E2,E3,E4,E5"),
                &mut r,
            );
            r
        }
        ("direct", Some("qlong")) => {
            let mut r = Report::default();
            let seed: u64 = m.get("seed").and_then(|s| s.parse().ok()).unwrap_or(1);
            let max_n: usize = m.get("max_n").and_then(|s| s.parse().ok()).unwrap_or(2000);
            qlong::direct_qlong(&m["prop"], seed, max_n, &mut r);
            r
        }
        ("direct", Some("histbig")) => {
            let mut r = Report::default();
            let seed: u64 = m.get("seed").and_then(|s| s.parse().ok()).unwrap_or(1);
            let reps: usize = m.get("reps").and_then(|s| s.parse().ok()).unwrap_or(200);
            hist_types::direct_histbig(&m["prop"], seed, reps, &mut r);
            r
        }
        ("direct", Some("serdelong")) => {
            let mut r = Report::default();
            let seed: u64 = m.get("seed").and_then(|s| s.parse().ok()).unwrap_or(1);
            let n: usize = m.get("n").and_then(|s| s.parse().ok()).unwrap_or(300);
            serdelong::direct_serdelong(seed, n, &mut r);
            r
        }
        ("direct", Some("histserde")) => {
            let mut r = Report::default();
            let seed: u64 = m.get("seed").and_then(|s| s.parse().ok()).unwrap_or(1);
            let reps: usize = m.get("reps").and_then(|s| s.parse().ok()).unwrap_or(20);
            hist_types::direct_histserde(seed, reps, &mut r);
            r
        }
        _ => {
            eprintln!("usage: conform replay --family moments --input F --prop Cxx --out R");
            std::process::exit(2);
        }
    };
    let mut j = rep.to_json();
    j["traces"] = serde_json::json!(rep.counters.get("traces").copied().unwrap_or(0));
    j["wall_s"] = serde_json::json!(t0.elapsed().as_secs_f64());
    j["args"] = serde_json::json!(m);
    let s = serde_json::to_string_pretty(&j).unwrap();
    match m.get("out") {
        Some(p) => std::fs::write(p, s).unwrap(),
        None => println!("{s}"),
    }
    if !rep.tool_errors.is_empty() {
        eprintln!("tool errors: {:?}", &rep.tool_errors[..rep.tool_errors.len().min(3)]);
        std::process::exit(2);
    }
}
