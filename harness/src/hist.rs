//! Spec -> implementation replay for the histogram family (Gen_Histogram) and the recorder
//! for Trace_Histogram.

use crate::exact::*;
use crate::report::*;
use serde_json::{json, Value};
use std::panic::{catch_unwind, AssertUnwindSafe};

pub trait HistT: Clone + Sized {
    const LEN: usize;
    const NAME: &'static str;
    fn from_ranges(v: Vec<f64>) -> Result<Self, &'static str>;
    /// the same list through an iterator that does not know its length (size_hint lower bound 0)
    fn from_ranges_lazy(v: Vec<f64>) -> Result<Self, &'static str>;
    fn with_const_width(a: f64, b: f64) -> Self;
    fn find(&self, x: f64) -> Result<usize, ()>;
    fn add(&mut self, x: f64) -> Result<(), ()>;
    fn bins(&self) -> Vec<u64>;
    fn ranges(&self) -> Vec<f64>;
    fn range_min(&self) -> f64;
    fn range_max(&self) -> f64;
    fn merge(&mut self, o: &Self);
    fn add_assign(&mut self, o: &Self);
    fn mul_assign(&mut self, k: u64);
    fn reset(&mut self);
    fn items(&self) -> Vec<((f64, f64), u64)>;
    fn iter_items(&self) -> Vec<((f64, f64), u64)>;
    /// drive the iterator: take k items, clone it, drain original and clone, then poll twice more;
    /// returns (first k, rest of the original, rest of the clone, "None after the end, twice")
    #[allow(clippy::type_complexity)]
    fn iter_protocol(&self, k: usize) -> (Vec<((f64, f64), u64)>, Vec<((f64, f64), u64)>, Vec<((f64, f64), u64)>, bool);
    fn widths(&self) -> Vec<f64>;
    fn centers(&self) -> Vec<f64>;
    fn normalized(&self) -> Vec<f64>;
    fn variances(&self) -> Vec<f64>;
    fn variance(&self, i: usize) -> f64;
    fn to_json(&self) -> Option<String>;
    fn from_json(s: &str) -> Self;
    /// round trip through the positional serde format, where the harness has one for the type
    fn roundtrip_pos(&self) -> Option<Result<Self, String>> {
        None
    }
    fn debug(&self) -> String;
}

pub fn edge_tok(t: &str) -> f64 {
    match t {
        "ninf" => f64::NEG_INFINITY,
        "m1" => -1.0,
        "nz" => -0.0,
        "pz" => 0.0,
        "half" => 0.5,
        "one" => 1.0,
        "two" => 2.0,
        "pinf" => f64::INFINITY,
        "nan" => f64::NAN,
        "one_up" => f64::from_bits(1.0f64.to_bits() + 1),
        "tiny" => f64::from_bits(1),
        _ => panic!("edge token {t}"),
    }
}

fn next_up(x: f64) -> f64 {
    if x == 0.0 {
        return f64::from_bits(1);
    }
    let b = x.to_bits();
    if x > 0.0 {
        f64::from_bits(b + 1)
    } else {
        f64::from_bits(b - 1)
    }
}
fn next_down(x: f64) -> f64 {
    -next_up(-x)
}

pub const NAN_SAMPLE: i64 = 424242;
pub const NEGZERO_SAMPLE: i64 = 424243;

/// sample lattice -> f64 (see spec/Histogram.tla)
pub fn sample(x: i64) -> f64 {
    match x {
        NAN_SAMPLE => f64::NAN,
        NEGZERO_SAMPLE => -0.0,
        -1000 => f64::NEG_INFINITY,
        1000 => f64::INFINITY,
        -999 => -f64::MAX,
        999 => f64::MAX,
        -20 | 0 | 10 | 20 | 40 => x as f64 / 20.0,
        -21 | -1 | 9 | 19 | 39 => next_down((x + 1) as f64 / 20.0),
        -19 | 1 | 11 | 21 | 41 => next_up((x - 1) as f64 / 20.0),
        -30 | -10 | 5 | 15 | 30 | 50 => x as f64 / 20.0,
        _ => panic!("sample {x}"),
    }
}

pub struct HWant {
    pub prop: String,
}

fn viol(rep: &mut Report, prop: &str, ty: &str, line: &Value, acc: &str, what: String) {
    let hist = if line.get("h").is_some() { line["h"].clone() } else { json!({"mode": line["mode"], "list": line.get("list"), "edges": line.get("edges"), "a": line.get("a"), "b": line.get("b")}) };
    rep.violation(json!({
        "property": prop, "family": "histogram", "type": ty, "embedding": "tokens",
        "history": hist, "accessor": acc, "what": what,
        "signature": format!("{}|{}|{}", prop, ty, acc),
    }));
}

fn toks(v: &Value) -> Vec<f64> {
    v.as_array().unwrap().iter().map(|t| edge_tok(t.as_str().unwrap())).collect()
}

fn same_bits(a: &[f64], b: &[f64]) -> bool {
    a.len() == b.len() && a.iter().zip(b).all(|(x, y)| x.to_bits() == y.to_bits())
}

/// every public observation of a histogram as bit patterns (a panic inside a view is a pattern too):
/// what "the restored copy is indistinguishable" (C18) quantifies over
fn fingerprint<H: HistT>(h: &H) -> Vec<u64> {
    let g = |f: &dyn Fn() -> Vec<f64>| -> Vec<u64> {
        match std::panic::catch_unwind(std::panic::AssertUnwindSafe(f)) {
            Ok(v) => v.into_iter().map(|x| if x.is_nan() { u64::MAX } else { x.to_bits() }).collect(),
            Err(_) => vec![0xdead_beef],
        }
    };
    let mut out: Vec<u64> = h.bins();
    out.extend(g(&|| h.ranges()));
    out.extend(g(&|| vec![h.range_min(), h.range_max()]));
    out.extend(g(&|| h.widths()));
    out.extend(g(&|| h.centers()));
    out.extend(g(&|| h.normalized()));
    out.extend(g(&|| h.variances()));
    out.extend(g(&|| (0..h.bins().len()).map(|i| h.variance(i)).collect()));
    out.extend(g(&|| h.items().into_iter().flat_map(|((a, b), c)| [a, b, c as f64]).collect()));
    out
}

fn err_name(e: &'static str) -> &'static str {
    e
}

// ------------------------------------------------------------------------------- build (C12)
fn do_build<H: HistT>(line: &Value, want: &HWant, rep: &mut Report) {
    if want.prop != "C12" {
        return;
    }
    rep.replays += 1;
    let list = toks(&line["list"]);
    let res = &line["res"];
    let got = catch_unwind(AssertUnwindSafe(|| H::from_ranges(list.clone())));
    rep.evaluations += 2;
    // the list is the list, whatever kind of iterator delivers it: the same call through an
    // iterator that does not know its length must give the same verdict and the same edges
    let lazy = catch_unwind(AssertUnwindSafe(|| H::from_ranges_lazy(list.clone())));
    match (&got, &lazy) {
        (Ok(Ok(a)), Ok(Ok(b))) if same_bits(&a.ranges(), &b.ranges()) => {}
        (Ok(Err(a)), Ok(Err(b))) if a == b => {}
        (Err(_), Err(_)) => {}
        _ => viol(rep, "C12", H::NAME, line, "from_ranges", format!(
            "from_ranges on a Vec and on a length-unaware iterator over the same values disagree: {:?} vs {:?}",
            got.as_ref().map(|r| r.as_ref().map(|h| h.ranges()).map_err(|e| *e)).map_err(|_| "panic"),
            lazy.as_ref().map(|r| r.as_ref().map(|h| h.ranges()).map_err(|e| *e)).map_err(|_| "panic"))),
    }
    match got {
        Err(_) => viol(rep, "C12", H::NAME, line, "from_ranges", "from_ranges panicked".into()),
        Ok(Ok(h)) => {
            if !res["ok"].as_bool().unwrap() {
                viol(rep, "C12", H::NAME, line, "from_ranges", format!("accepted an invalid edge list; the specification rejects it with {}", res["err"]));
                return;
            }
            let want_edges = toks(&res["edges"]);
            rep.evaluations += 3;
            if !same_bits(&h.ranges(), &want_edges) {
                viol(rep, "C12", H::NAME, line, "ranges", format!("ranges() = {:?} but the first LEN+1 inputs are {:?}", h.ranges(), want_edges));
            }
            if h.bins().iter().any(|&b| b != 0) || h.bins().len() != H::LEN {
                viol(rep, "C12", H::NAME, line, "bins", format!("a new histogram must have LEN zero counts, got {:?}", h.bins()));
            }
            if h.range_min().to_bits() != want_edges[0].to_bits() || h.range_max().to_bits() != want_edges[H::LEN].to_bits() {
                viol(rep, "C12", H::NAME, line, "range_min/max", format!("range_min/max = {:?}/{:?}", h.range_min(), h.range_max()));
            }
        }
        Ok(Err(e)) => {
            if res["ok"].as_bool().unwrap() {
                viol(rep, "C12", H::NAME, line, "from_ranges", format!("rejected a valid edge list with {}", err_name(e)));
            } else if res["err"].as_str().unwrap() != err_name(e) {
                viol(rep, "C12", H::NAME, line, "from_ranges", format!("failed with {} but the first offending position calls for {}", err_name(e), res["err"]));
            }
        }
    }
}

// -------------------------------------------------------------------------------- find (C06)
fn do_find<H: HistT>(line: &Value, want: &HWant, rep: &mut Report) {
    if want.prop != "C06" {
        return;
    }
    rep.replays += 1;
    let edges = toks(&line["edges"]);
    let h = match H::from_ranges(edges.clone()) {
        Ok(h) => h,
        Err(e) => {
            viol(rep, "C06", H::NAME, line, "from_ranges", format!("valid edges rejected: {}", err_name(e)));
            return;
        }
    };
    for pair in line["table"].as_array().unwrap() {
        let sx = pair[0].as_i64().unwrap();
        let bin = pair[1].as_i64().unwrap();
        let x = sample(sx);
        rep.evaluations += 2;
        let f = catch_unwind(AssertUnwindSafe(|| h.find(x)));
        let desc = format!("sample {:e} (lattice {})", x, sx);
        match f {
            Err(_) => {
                viol(rep, "C06", H::NAME, line, "find", format!("find panicked on {desc}; it must return SampleOutOfRangeError"));
            }
            Ok(r) => {
                let got = r.map(|i| i as i64 + 1).unwrap_or(0);
                if got != bin {
                    viol(rep, "C06", H::NAME, line, "find", format!("find({desc}) selected bin {} (1-based, 0 = out of range) but the containing bin is {}; edges {:?}", got, bin, edges));
                }
                let in_range = !x.is_nan() && h.range_min() <= x && x < h.range_max();
                if in_range != (bin != 0) {
                    rep.tool_errors.push(format!("spec table disagrees with range_min <= x < range_max for {desc}"));
                }
            }
        }
        let mut c = h.clone();
        let a = catch_unwind(AssertUnwindSafe(|| c.add(x)));
        match a {
            Err(_) => viol(rep, "C06", H::NAME, line, "add", format!("add panicked on {desc}; it must return SampleOutOfRangeError")),
            Ok(r) => {
                let bins = c.bins();
                let mut expect = vec![0u64; H::LEN];
                if bin != 0 {
                    expect[bin as usize - 1] = 1;
                }
                if r.is_ok() != (bin != 0) || bins != expect {
                    viol(rep, "C06", H::NAME, line, "add", format!("add({desc}) returned {:?} and left counts {:?}; expected {} and {:?}", r, bins, if bin != 0 { "Ok" } else { "SampleOutOfRangeError" }, expect));
                }
            }
        }
    }
}

// ---------------------------------------------------------------------------------- cw (C12)
/// C06 on a histogram with arbitrary (non-lattice) edges: every edge and its floating-point
/// neighbours must be found in the bin the definition lower_i <= x < upper_i gives (evaluated by
/// a linear scan of the histogram's own edges), and found at all iff range_min <= x < range_max.
fn check_find_on_own_edges<H: HistT>(h: &H, line: &Value, label: &str, rep: &mut Report) {
    let r = h.ranges();
    let mut samples: Vec<f64> = Vec::new();
    for &e in &r {
        if e.is_finite() {
            samples.push(e);
            samples.push(f64::from_bits(if e > 0.0 { e.to_bits() + 1 } else { e.to_bits().saturating_sub(1) }));
            samples.push(f64::from_bits(if e > 0.0 { e.to_bits().saturating_sub(1) } else { e.to_bits() + 1 }));
        }
    }
    for x in samples {
        if x.is_nan() {
            continue;
        }
        rep.evaluations += 1;
        let bins: Vec<usize> = (0..H::LEN).filter(|&i| r[i] <= x && x < r[i + 1]).collect();
        let in_range = h.range_min() <= x && x < h.range_max();
        let got = catch_unwind(AssertUnwindSafe(|| h.find(x)));
        let got = match got {
            Ok(g) => g,
            Err(_) => {
                viol(rep, "C06", H::NAME, line, "find", format!("{label}: find({:e}) panicked", x));
                return;
            }
        };
        if bins.len() > 1 {
            viol(rep, "C06", H::NAME, line, "find", format!("{label}: sample {:e} lies in {} bins of a successfully built histogram (edges {:?})", x, bins.len(), r));
            return;
        }
        let want_bin = bins.first().copied();
        if got.ok() != want_bin || (want_bin.is_some() != in_range) {
            viol(rep, "C06", H::NAME, line, "find", format!("{label}: find({:e}) = {:?} but the containing bin is {:?} (range_min <= x < range_max: {}); edges {:?}", x, got, want_bin, in_range, r));
            return;
        }
    }
}

fn do_cw<H: HistT>(line: &Value, want: &HWant, rep: &mut Report) {
    if want.prop == "C06" && rep.distinct.insert(hash_str(&format!("cw-sweep-{}", H::NAME))) {
        // once per type: ranges whose step (end - start) / LEN is not representable, so that the
        // computed last edge may land one ulp above or below `end` and inner edges off the lattice;
        // find on every edge, its neighbours, and the constructor's own arguments
        let mut cases: Vec<(f64, f64)> = Vec::new();
        for a in [0.0, 1.0, -3.0, 0.1] {
            for j in 1..=40 {
                cases.push((a, a + j as f64));
                cases.push((a, a + j as f64 * 0.1));
            }
        }
        for (a, b) in cases {
            rep.replays += 1;
            let h = H::with_const_width(a, b);
            check_find_on_own_edges(&h, line, "with_const_width on a range with an unrepresentable step", rep);
            let up = |x: f64| if x == 0.0 { 5e-324 } else if x > 0.0 { f64::from_bits(x.to_bits() + 1) } else { f64::from_bits(x.to_bits() - 1) };
            let down = |x: f64| -up(-x);
            for x in [a, b, down(b), up(b), up(a), down(a)] {
                rep.evaluations += 1;
                let r = h.ranges();
                let want_bin = (0..H::LEN).find(|&i| r[i] <= x && x < r[i + 1]);
                let got = catch_unwind(AssertUnwindSafe(|| h.find(x))).unwrap_or(Err(()));
                if got.ok() != want_bin {
                    viol(rep, "C06", H::NAME, line, "find", format!("with_const_width({:e}, {:e}): find({:e}) = {:?} but the containing bin is {:?}; edges {:?}", a, b, x, got, want_bin, r));
                    break;
                }
            }
        }
    }
    if want.prop == "C06" {
        // histograms built by with_const_width, ordinary and only a few ulps wide
        let a = line["a"].as_i64().unwrap() as f64;
        let b = line["b"].as_i64().unwrap() as f64;
        for k in [-60, -3, 0, 20] {
            rep.replays += 1;
            let h = H::with_const_width(a * p2(k), b * p2(k));
            check_find_on_own_edges(&h, line, "with_const_width", rep);
            for base in [a, b, 7.5] {
                let start = base * p2(k);
                if start == 0.0 {
                    continue;
                }
                for width_ulps in [1u64, 2, 3, 7, 39, 1000] {
                    let end = if start > 0.0 { f64::from_bits(start.to_bits() + width_ulps) } else { f64::from_bits(start.to_bits() - width_ulps) };
                    rep.replays += 1;
                    let h = H::with_const_width(start, end);
                    check_find_on_own_edges(&h, line, "with_const_width on a range a few ulps wide", rep);
                }
            }
        }
        return;
    }
    if want.prop != "C12" {
        return;
    }
    let a = line["a"].as_i64().unwrap() as f64;
    let b = line["b"].as_i64().unwrap() as f64;
    let exact: Vec<Rat> = line["edges"].as_array().unwrap().iter().map(|e| Rat::new(e[0].as_i64().unwrap() as i128, e[1].as_i64().unwrap() as i128)).collect();
    for k in [-100, -63, -50, -31, -10, -3, -1, 0, 1, 2, 7, 20, 33, 50, 64, 100] {
        rep.replays += 1;
        let s = p2(k);
        let (start, end) = (a * s, b * s);
        let h = H::with_const_width(start, end);
        let r = h.ranges();
        let ulp_scale = start.abs().max(end.abs());
        rep.evaluations += (r.len() + 2) as u64;
        if r.len() != H::LEN + 1 {
            viol(rep, "C12", H::NAME, line, "with_const_width", format!("{} edges", r.len()));
            continue;
        }
        if r[0].to_bits() != start.to_bits() && !(r[0] == start) {
            viol(rep, "C12", H::NAME, line, "with_const_width", format!("first edge {:e} is not exactly start {:e}", r[0], start));
        }
        if !r.windows(2).all(|w| w[0] <= w[1]) {
            viol(rep, "C12", H::NAME, line, "with_const_width", format!("edges not non-decreasing: {:?}", r));
        }
        for i in 0..r.len() {
            let e = exact[i].to_f64() * s;
            if (r[i] - e).abs() > 4.0 * 2.0 * U * ulp_scale {
                viol(rep, "C12", H::NAME, line, "with_const_width", format!("edge {} = {:e} but start + i*(end-start)/LEN = {:e} (start {:e}, end {:e})", i, r[i], e, start, end));
            }
        }
        if h.bins().iter().any(|&c| c != 0) {
            viol(rep, "C12", H::NAME, line, "with_const_width", "non-zero counts in a new histogram".into());
        }
    }
    // ranges only a few ulps wide (the step is far below the spacing of the edges' magnitude): the
    // edges must still be non-decreasing, start at `start` and stay within 4 ulps of the ideal value
    for base in [a, b, 7.5, 12.751705525168683, -43074810.26659697] {
        for k in [-60, 0, 20] {
            let start = base * p2(k);
            if start == 0.0 || !start.is_finite() {
                continue;
            }
            for width_ulps in [1u64, 2, 3, 5, 7, 11, 39, 100, 299, 1000] {
                let end = if start > 0.0 { f64::from_bits(start.to_bits() + width_ulps) } else { f64::from_bits(start.to_bits() - width_ulps) };
                rep.replays += 1;
                let h = H::with_const_width(start, end);
                let r = h.ranges();
                let scale = start.abs().max(end.abs());
                rep.evaluations += r.len() as u64 + 1;
                if r[0] != start {
                    viol(rep, "C12", H::NAME, line, "with_const_width", format!("narrow range: first edge {:e} is not start {:e}", r[0], start));
                }
                if let Some(i) = (0..r.len() - 1).find(|&i| !(r[i] <= r[i + 1])) {
                    viol(rep, "C12", H::NAME, line, "with_const_width", format!("with_const_width({:e}, {:e}): edges not non-decreasing at {}: {:e} > {:e}", start, end, i, r[i], r[i + 1]));
                }
                for (i, &e) in r.iter().enumerate() {
                    let reference = start + (end - start) * (i as f64 / H::LEN as f64);
                    if (e - reference).abs() > 4.0 * 2.0 * U * scale + 2.0 * 2.0 * U * scale {
                        viol(rep, "C12", H::NAME, line, "with_const_width", format!("with_const_width({:e}, {:e}): edge {} = {:e} but start + i*(end-start)/LEN = {:e}", start, end, i, e, reference));
                        break;
                    }
                }
            }
        }
    }
    // ranges that straddle zero almost, but not exactly, symmetrically: an inner edge is tiny
    // compared with the bin width but is not zero
    for x in [a.abs().max(1.0), 3.0, 1e-20, 7.7e11] {
        for delta in [p2(-33), p2(-30), 1e-9, p2(-45)] {
            for (start, end) in [(-x, x * (1.0 + delta)), (-x * (1.0 + delta), x)] {
                rep.replays += 1;
                let h = H::with_const_width(start, end);
                let r = h.ranges();
                let scale = start.abs().max(end.abs());
                rep.evaluations += r.len() as u64;
                for (i, &e) in r.iter().enumerate() {
                    // start + i (end - start) / LEN, evaluated with an error of at most 2 ulps of `scale`
                    let reference = start + (end - start) * (i as f64 / H::LEN as f64);
                    if (e - reference).abs() > 6.0 * 2.0 * U * scale || (i == 0 && e != start) {
                        viol(rep, "C12", H::NAME, line, "with_const_width", format!("range ({:e}, {:e}): edge {} = {:e} but start + i*(end-start)/LEN = {:e}", start, end, i, e, reference));
                        break;
                    }
                }
                if !r.windows(2).all(|w| w[0] <= w[1]) {
                    viol(rep, "C12", H::NAME, line, "with_const_width", format!("range ({:e}, {:e}): edges not non-decreasing", start, end));
                }
            }
        }
    }
    // ranges only a few ulps wide ("all finite start < end"): the edges must still be
    // non-decreasing, start exactly first, and every edge within a few ulps of the exact one
    for k in [-40, 0, 3, 60] {
        for base in [a, b, a + 0.5, 7.5] {
            let start = base * p2(k);
            if start == 0.0 || !start.is_finite() {
                continue;
            }
            for width_ulps in [1u64, 2, 3, 5, 8, 13, 39, 1000] {
                let end = if start > 0.0 { f64::from_bits(start.to_bits() + width_ulps) } else { f64::from_bits(start.to_bits() - width_ulps) };
                rep.replays += 1;
                let h = H::with_const_width(start, end);
                let r = h.ranges();
                let ulp = (f64::from_bits(start.abs().max(end.abs()).to_bits() + 1) - start.abs().max(end.abs())).abs();
                rep.evaluations += (r.len() + 2) as u64;
                if r.len() != H::LEN + 1 || r[0] != start {
                    viol(rep, "C12", H::NAME, line, "with_const_width", format!("narrow range: first edge {:e} is not start {:e}", r[0], start));
                    continue;
                }
                if !r.windows(2).all(|w| w[0] <= w[1]) {
                    viol(rep, "C12", H::NAME, line, "with_const_width", format!("narrow range [{:e}, +{} ulps]: edges not non-decreasing: {:?}", start, width_ulps, r.iter().map(|x| x.to_bits()).collect::<Vec<_>>()));
                    continue;
                }
                for (i, &e) in r.iter().enumerate() {
                    let reference = start + (end - start) * (i as f64 / H::LEN as f64);
                    if (e - reference).abs() > 5.0 * ulp {
                        viol(rep, "C12", H::NAME, line, "with_const_width", format!("narrow range [{:e}, +{} ulps]: edge {} = {:e}, more than 5 ulps from {:e}", start, width_ulps, i, e, reference));
                        break;
                    }
                }
            }
        }
    }
}

// -------------------------------------------------------------------------------- hist mode
#[derive(Clone, Debug)]
enum HOp {
    Build(usize, Vec<f64>),
    Add(usize, i64),
    Merge(usize, usize),
    AddAssign(usize, usize),
    Clone(usize, usize),
    Mul(usize, u64),
    Reset(usize),
    Ckpt(usize),
}

fn parse_hops(h: &Value) -> Vec<HOp> {
    h.as_array()
        .unwrap()
        .iter()
        .map(|e| {
            let a = e.as_array().unwrap();
            let i = |k: usize| a[k].as_i64().unwrap() as usize - 1;
            match a[0].as_str().unwrap() {
                "build" => HOp::Build(i(1), toks(&a[2])),
                "add" => HOp::Add(i(1), a[2].as_i64().unwrap()),
                "merge" => HOp::Merge(i(1), i(2)),
                "addassign" => HOp::AddAssign(i(1), i(2)),
                "clone" => HOp::Clone(i(1), i(2)),
                "mul" => HOp::Mul(i(1), a[2].as_u64().unwrap()),
                "reset" => HOp::Reset(i(1)),
                "ckpt" => HOp::Ckpt(i(1)),
                o => panic!("unknown op {o}"),
            }
        })
        .collect()
}

/// variance(i) = n (N - n) / N of Histogram.tla evaluated in u128 (exact below counts of 2^63);
/// cross-checked against every variance the specification exports, used alone for large counts
pub fn hexact_variance(n: u128, total: u128) -> f64 {
    if total == 0 {
        return f64::NAN;
    }
    ((n * (total - n)) as f64) / (total as f64)
}

fn view_expected(v: &Value) -> Option<f64> {
    // Some(f64) for exact rationals / infinities, None for NaN
    match v {
        Value::String(s) if s == "nan" => None,
        Value::String(s) if s == "pinf" => Some(f64::INFINITY),
        Value::String(s) if s == "ninf" => Some(f64::NEG_INFINITY),
        Value::Array(a) => Some(a[0].as_i64().unwrap() as f64 / a[1].as_i64().unwrap() as f64),
        _ => panic!("view value {v}"),
    }
}

fn view_ok(got: f64, exp: &Value, tol: f64) -> bool {
    match view_expected(exp) {
        None => got.is_nan(),
        Some(e) if e.is_infinite() => got == e,
        Some(e) => (got - e).abs() <= tol,
    }
}

struct Last {
    kind: &'static str,
    ok: bool,
    bin: usize,
    panic: bool,
    err: Option<&'static str>,
}

fn do_hist<H: HistT>(line: &Value, want: &HWant, rep: &mut Report) {
    // a history with a Clone step is replayed twice: Clone::clone and Clone::clone_from at the
    // complementary positions
    let has_clone = line["h"].as_array().map(|a| a.iter().any(|e| e[0].as_str() == Some("clone"))).unwrap_or(false);
    do_hist_parity::<H>(line, want, rep, 0);
    if has_clone {
        do_hist_parity::<H>(line, want, rep, 1);
    }
}

fn do_hist_parity<H: HistT>(line: &Value, want: &HWant, rep: &mut Report, parity: usize) {
    let prop = want.prop.as_str();
    if !matches!(prop, "C06" | "C11" | "C13" | "C17" | "C18" | "C12") {
        return;
    }
    rep.replays += 1;
    let ops = parse_hops(&line["h"]);
    let k = line["s"].as_array().unwrap().len();
    let run = |roundtrip: bool, rep: &mut Report| -> (Vec<Option<H>>, Last) {
        let mut w: Vec<Option<H>> = vec![None; k];
        let mut last = Last { kind: "init", ok: true, bin: 0, panic: false, err: None };
        for (step, op) in ops.iter().enumerate() {
            match op {
                HOp::Build(s, list) => match H::from_ranges(list.clone()) {
                    Ok(h) => {
                        w[*s] = Some(h);
                        last = Last { kind: "build", ok: true, bin: 0, panic: false, err: None };
                    }
                    Err(e) => last = Last { kind: "build", ok: false, bin: 0, panic: false, err: Some(err_name(e)) },
                },
                HOp::Add(s, x) => {
                    let h = w[*s].as_mut().unwrap();
                    let xv = sample(*x);
                    let before = h.bins();
                    let f = catch_unwind(AssertUnwindSafe(|| h.find(xv))).unwrap_or(Err(()));
                    let r = catch_unwind(AssertUnwindSafe(|| h.add(xv)));
                    match r {
                        Ok(Ok(())) => last = Last { kind: "add", ok: true, bin: f.map(|i| i + 1).unwrap_or(0), panic: false, err: None },
                        Ok(Err(())) => {
                            if prop == "C06" && h.bins() != before && !roundtrip {
                                viol(rep, "C06", H::NAME, line, "add", format!("a failed add changed the counts at step {}", step + 1));
                            }
                            last = Last { kind: "add", ok: false, bin: 0, panic: false, err: None }
                        }
                        Err(_) => last = Last { kind: "add", ok: false, bin: 0, panic: true, err: None },
                    }
                }
                HOp::Merge(d, s) | HOp::AddAssign(d, s) => {
                    let is_merge = matches!(op, HOp::Merge(_, _));
                    let src = w[*s].clone().unwrap();
                    let dst0 = w[*d].clone().unwrap();
                    let h = w[*d].as_mut().unwrap();
                    let r = catch_unwind(AssertUnwindSafe(|| if is_merge { h.merge(&src) } else { h.add_assign(&src) }));
                    let panicked = r.is_err();
                    last = Last { kind: if is_merge { "merge" } else { "addassign" }, ok: !panicked, bin: 0, panic: panicked, err: None };
                    if !roundtrip && matches!(prop, "C13" | "C11") {
                        rep.evaluations += 4;
                        let tot = |b: &[u64]| b.iter().sum::<u64>();
                        if panicked {
                            if h.bins() != dst0.bins() || !same_bits(&h.ranges(), &dst0.ranges()) {
                                viol(rep, prop, H::NAME, line, "merge", format!("a panicking merge/+= changed the destination at step {}", step + 1));
                            }
                        } else {
                            // the other operation and the other order give the same counts
                            let mut alt = dst0.clone();
                            let r2 = catch_unwind(AssertUnwindSafe(|| if is_merge { alt.add_assign(&src) } else { alt.merge(&src) }));
                            if r2.is_err() || alt.bins() != h.bins() {
                                viol(rep, "C13", H::NAME, line, "merge vs +=", format!("merge and += disagree at step {}: {:?} vs {:?}", step + 1, h.bins(), alt.bins()));
                            }
                            let mut rev = src.clone();
                            let r3 = catch_unwind(AssertUnwindSafe(|| rev.merge(&dst0)));
                            if r3.is_err() || rev.bins() != h.bins() {
                                viol(rep, "C13", H::NAME, line, "commutativity", format!("a.merge(b) and b.merge(a) disagree at step {}: {:?} vs {:?}", step + 1, h.bins(), rev.bins()));
                            }
                            if tot(&h.bins()) != tot(&dst0.bins()) + tot(&src.bins()) {
                                viol(rep, prop, H::NAME, line, "merge", format!("merged total {} != {} + {}", tot(&h.bins()), tot(&dst0.bins()), tot(&src.bins())));
                            }
                            if tot(&src.bins()) == 0 && h.bins() != dst0.bins() {
                                viol(rep, "C11", H::NAME, line, "merge", "merging an empty histogram changed the counts".into());
                            }
                            if tot(&dst0.bins()) == 0 && h.bins() != src.bins() {
                                viol(rep, "C11", H::NAME, line, "merge", "merging into an empty histogram did not reproduce the source's counts".into());
                            }
                            if !same_bits(&h.ranges(), &dst0.ranges()) {
                                viol(rep, prop, H::NAME, line, "merge", "merge changed the edges".into());
                            }
                        }
                        let s_now = w[*s].as_ref().unwrap();
                        if s_now.bins() != src.bins() || !same_bits(&s_now.ranges(), &src.ranges()) {
                            viol(rep, prop, H::NAME, line, "merge", "merge modified its argument".into());
                        }
                    }
                }
                HOp::Clone(d, s) => {
                    // Clone::clone and Clone::clone_from (onto whatever the destination held) are
                    // the same step of the specification: use them alternately
                    let src = w[*s].clone();
                    match (&mut w[*d], &src) {
                        (Some(dst), Some(sv)) if (step + parity) % 2 == 1 => dst.clone_from(sv),
                        _ => w[*d] = src,
                    }
                    last = Last { kind: "clone", ok: true, bin: 0, panic: false, err: None };
                }
                HOp::Mul(s, kk) => {
                    w[*s].as_mut().unwrap().mul_assign(*kk);
                    last = Last { kind: "mul", ok: true, bin: 0, panic: false, err: None };
                }
                HOp::Reset(s) => {
                    w[*s].as_mut().unwrap().reset();
                    last = Last { kind: "reset", ok: true, bin: 0, panic: false, err: None };
                }
                HOp::Ckpt(s) => {
                    last = Last { kind: "ckpt", ok: true, bin: 0, panic: false, err: None };
                    if roundtrip {
                        let h = w[*s].as_ref().unwrap();
                        let finite = h.ranges().iter().all(|x| x.is_finite());
                        if finite {
                            if let Some(j) = h.to_json() {
                                let r = H::from_json(&j);
                                rep.evaluations += 2;
                                if r.bins() != h.bins() || !same_bits(&r.ranges(), &h.ranges()) || fingerprint(&r) != fingerprint(h) {
                                    viol(rep, "C18", H::NAME, line, "roundtrip", format!("restored histogram differs at step {}: {} vs {}", step + 1, r.debug(), h.debug()));
                                }
                                if h.to_json().as_deref() != Some(j.as_str()) {
                                    viol(rep, "C18", H::NAME, line, "serialize", "serialising modified the histogram".into());
                                }
                                let mut r = r;
                                match h.roundtrip_pos() {
                                    Some(Ok(rp)) => {
                                        rep.evaluations += 1;
                                        if rp.bins() != h.bins() || !same_bits(&rp.ranges(), &h.ranges()) || fingerprint(&rp) != fingerprint(h) {
                                            viol(rep, "C18", H::NAME, line, "roundtrip (positional format)", format!("restored histogram differs at step {}: {} vs {}", step + 1, rp.debug(), h.debug()));
                                        }
                                        if step % 2 == 1 {
                                            r = rp;
                                        }
                                    }
                                    Some(Err(_)) => rep.bump("positional_format_not_supported", 1),
                                    None => {}
                                }
                                w[*s] = Some(r);
                            }
                        } else {
                            rep.bump("ckpt_skipped_nonfinite_field", 1);
                        }
                    }
                }
            }
        }
        (w, last)
    };
    let (w, last) = run(false, rep);
    // ---- the result of the last call
    let sl = &line["last"];
    let op = sl["op"].as_str().unwrap();
    if op != last.kind {
        rep.tool_errors.push(format!("last op mismatch {} vs {}", op, last.kind));
        return;
    }
    rep.evaluations += 1;
    match op {
        "build" if prop == "C12" => {
            let r = &sl["res"];
            if r["ok"].as_bool().unwrap() != last.ok || (!last.ok && r["err"].as_str() != last.err) {
                viol(rep, "C12", H::NAME, line, "from_ranges", format!("from_ranges gave ok={} err={:?}; the specification says {}", last.ok, last.err, r));
            }
        }
        "add" if prop == "C06" => {
            if last.panic {
                viol(rep, "C06", H::NAME, line, "add", "add panicked; it must return SampleOutOfRangeError".into());
            } else if sl["ok"].as_bool().unwrap() != last.ok || (last.ok && sl["bin"].as_u64().unwrap() as usize != last.bin) {
                viol(rep, "C06", H::NAME, line, "add", format!("add returned ok={} bin={} but the specification says ok={} bin={}", last.ok, last.bin, sl["ok"], sl["bin"]));
            }
        }
        "merge" | "addassign" if prop == "C13" => {
            if sl["panic"].as_bool().unwrap() != last.panic {
                viol(rep, "C13", H::NAME, line, op, format!("panicked={} but the specification says panic={} (different edges must panic, equal edges must not)", last.panic, sl["panic"]));
            }
        }
        _ => {}
    }
    // ---- the state of every slot
    for (s, spec) in line["s"].as_array().unwrap().iter().enumerate() {
        let built = spec["built"].as_bool().unwrap();
        if built != w[s].is_some() {
            if matches!(prop, "C12" | "C13") {
                viol(rep, prop, H::NAME, line, "from_ranges", format!("slot {} built={} but the specification says {}", s + 1, w[s].is_some(), built));
            }
            continue;
        }
        if !built {
            continue;
        }
        let h = w[s].as_ref().unwrap();
        let sbins: Vec<u64> = spec["bins"].as_array().unwrap().iter().map(|x| x.as_u64().unwrap()).collect();
        let sedges = toks(&spec["edges"]);
        let total: u64 = sbins.iter().sum();
        if matches!(prop, "C06" | "C13" | "C11") {
            rep.evaluations += 2;
            if h.bins() != sbins {
                viol(rep, prop, H::NAME, line, "bins", format!("slot {} counts {:?} but the specification says {:?}", s + 1, h.bins(), sbins));
            }
            if !same_bits(&h.ranges(), &sedges) {
                viol(rep, prop, H::NAME, line, "ranges", format!("slot {} edges {:?} but the specification says {:?}", s + 1, h.ranges(), sedges));
            }
        }
        if prop == "C13" {
            // iteration: exactly LEN items ((lower, upper), count) in edge order
            let items = h.items();
            let items2 = h.iter_items();
            rep.evaluations += 6;
            let good = items.len() == H::LEN
                && items.iter().enumerate().all(|(i, ((a, b), c))| a.to_bits() == sedges[i].to_bits() && b.to_bits() == sedges[i + 1].to_bits() && *c == sbins[i]);
            if !good || items2.len() != items.len() || items2.iter().zip(&items).any(|(x, y)| x.1 != y.1 || x.0 .0.to_bits() != y.0 .0.to_bits() || x.0 .1.to_bits() != y.0 .1.to_bits()) {
                viol(rep, "C13", H::NAME, line, "iter", format!("iteration yields {:?}; expected edges {:?} counts {:?}", items, sedges, sbins));
            }
            let exact_views = spec.get("exactviews").and_then(|x| x.as_bool()).unwrap_or(true);
            // the iterator as a state machine: exactly LEN items, a clone taken mid-way yields the
            // same remainder, and after the end it keeps returning None
            for kk in 0..=H::LEN.min(3) {
                let (first, rest, rest_clone, none_twice) = h.iter_protocol(kk);
                rep.evaluations += 1;
                let same = |a: &[((f64, f64), u64)], b: &[((f64, f64), u64)]| a.len() == b.len() && a.iter().zip(b).all(|(x, y)| x.1 == y.1 && x.0 .0.to_bits() == y.0 .0.to_bits() && x.0 .1.to_bits() == y.0 .1.to_bits());
                let mut all = first.clone();
                all.extend(rest.iter().cloned());
                if !same(&all, &items) || !same(&rest, &rest_clone) || !none_twice || first.len() != kk.min(H::LEN) {
                    viol(rep, "C13", H::NAME, line, "iter", format!("iterator protocol broken after taking {kk} items: {} + {} items (clone: {}), None-after-end: {}", first.len(), rest.len(), rest_clone.len(), none_twice));
                }
            }
            let views: [(&str, Vec<f64>, &Value, f64); 4] = [
                ("widths", h.widths(), &spec["widths"], 0.0),
                ("centers", h.centers(), &spec["centers"], 0.0),
                ("normalized_bins", h.normalized(), &spec["norm"], 0.0),
                ("variances", h.variances(), &spec["vars"], 4.0 * U * (total as f64)),
            ];
            // oracle cross-check of the large-count evaluator against the specification's variances
            for i in 0..H::LEN {
                let mine = hexact_variance(sbins[i] as u128, total as u128);
                rep.crosschecks += 1;
                let agree = match view_expected(&spec["vars"][i]) {
                    None => mine.is_nan(),
                    Some(e) => (mine - e).abs() <= 4.0 * U * e.abs(),
                };
                if !agree {
                    rep.tool_errors.push(format!("hexact_variance disagrees with Histogram.tla on bins {:?}: {} vs {}", sbins, mine, spec["vars"][i]));
                }
            }
            for (name, got, exp, tol) in views.iter() {
                if !exact_views && *name != "variances" {
                    continue; // edge values one ulp off the lattice: widths / centres are not exported exactly
                }
                let exp = exp.as_array().unwrap();
                if got.len() != H::LEN {
                    viol(rep, "C13", H::NAME, line, name, format!("{name} yields {} items", got.len()));
                    continue;
                }
                for i in 0..H::LEN {
                    let t = if *name == "normalized_bins" { view_expected(&exp[i]).map(|e| 2.0 * U * e.abs()).unwrap_or(0.0) } else { *tol };
                    if !view_ok(got[i], &exp[i], t) {
                        viol(rep, "C13", H::NAME, line, name, format!("{name}[{i}] = {:e} but the specification says {} (edges {:?}, counts {:?})", got[i], exp[i], sedges, sbins));
                    }
                }
            }
            let vs = h.variances();
            for i in 0..H::LEN {
                let v = h.variance(i);
                let tol = 4.0 * U * (total as f64);
                if !(v.is_nan() && vs[i].is_nan()) && !((v - vs[i]).abs() <= tol) {
                    viol(rep, "C13", H::NAME, line, "variance", format!("variance({i}) = {:e} disagrees with variances()[{i}] = {:e}", v, vs[i]));
                }
            }
        }
        if prop == "C17" && total > 0 {
            for i in 0..H::LEN {
                rep.evaluations += 2;
                for (nm, v) in [("variance", h.variance(i)), ("variances", h.variances()[i])] {
                    let t = total as f64;
                    if !(v >= -4.0 * U * t && v <= t / 4.0 * (1.0 + 4.0 * U)) {
                        viol(rep, "C17", H::NAME, line, nm, format!("bin variance {:e} outside [0, total/4 = {}] (counts {:?})", v, t / 4.0, sbins));
                    }
                }
            }
        }
    }
    if prop == "C18" && ops.iter().any(|o| matches!(o, HOp::Ckpt(_))) {
        let (w1, _) = run(true, rep);
        for s in 0..k {
            rep.evaluations += 1;
            match (&w[s], &w1[s]) {
                (Some(a), Some(b)) => {
                    if a.bins() != b.bins() || !same_bits(&a.ranges(), &b.ranges()) || fingerprint(a) != fingerprint(b) {
                        viol(rep, "C18", H::NAME, line, "continue", "continuing on the restored histogram diverged from the uninterrupted computation".into());
                    }
                }
                (None, None) => {}
                _ => viol(rep, "C18", H::NAME, line, "continue", "slot built in one run only".into()),
            }
        }
    }
}

pub fn dispatch<H: HistT>(v: &Value, want: &HWant, rep: &mut Report) {
    let r = catch_unwind(AssertUnwindSafe(|| dispatch_inner::<H>(v, want, &mut *rep)));
    if r.is_err() {
        viol(rep, &want.prop, H::NAME, v, "panic", "the code under test panicked outside a call where a panic is specified".into());
    }
}

fn dispatch_inner<H: HistT>(v: &Value, want: &HWant, rep: &mut Report) {
    match v["mode"].as_str().unwrap() {
        "build" => do_build::<H>(v, want, rep),
        "find" => do_find::<H>(v, want, rep),
        "cw" => do_cw::<H>(v, want, rep),
        "hist" => do_hist::<H>(v, want, rep),
        m => panic!("mode {m}"),
    }
}


/// bookkeeping shared by the stable and the nightly harness around one emitted line
pub fn line_prologue(v: &Value, rep: &mut Report) -> bool {
    let hs = hash_str(&v.to_string());
    rep.behaviours += 1;
    if !rep.distinct.insert(hs) {
        rep.bump("duplicate_histories", 1);
        return false;
    }
    let nontrivial = match v["mode"].as_str().unwrap() {
        "build" => v["list"].as_array().unwrap().len() >= 2,
        "find" | "cw" => true,
        _ => v["h"].as_array().unwrap().len() >= 2,
    };
    if nontrivial {
        rep.nontrivial.insert(hs);
    }
    let mut smp = v.clone();
    if let Some(o) = smp.as_object_mut() {
        o.remove("table");
    }
    rep.sample(smp);
    true
}
